#!/usr/bin/env python3
"""Regenerates /verif/MANIFEST.json from the table below (kept in one place so that
claimed checks, levels and the not_applicable list never drift apart)."""
import json, subprocess

ALL = ["C%02d" % i for i in range(1, 20)]

# id -> (engine, level category, technique, level text, level note, design ref)
CHECKS = {
 "C01": ("reng", "exploration", "runtime monitoring: reference-model oracle over generated histories on the real replica engine",
         "Held on the generated histories: every read (read-back after each write, random reads, full-volume reads at quiescent points, after every chain mutation and reopen/reload) equals a sector-stamped reference model; controller range check exercised on the controller engine. Exploration, not proof: reach comes from the history generator's bias (alignment classes, ownership-straddling writes, chain mutations, reopen with and without preload, reclamation on/off).",
         "Sequential per replica; ext4 4 KiB; stamps make every sector identify the write it holds.", "DESIGN.md 4/C01"),
 "C06": ("reng", "exploration", "runtime monitoring: revert-on-copy image comparison of every retained user snapshot at quiescent points; Controller.Revert through REST on real processes followed by a full read; Controller.Revert on the controller engine with one replica refusing it, full reads at every reader position against the snapshot's model image",
         "Held on the generated histories: at every quiescent point the image of every retained user-created snapshot, obtained by reverting an extent-exact copy of the directory with the real code, equals the image recorded at creation; in-place reverts are compared with the image as well; on real replica processes every user snapshot taken through the controller had the model's image on every replica, kept it through deletions, a rebuild and cleaner merges, and a volume revert through the controller read back exactly that image.",
         "Reclamation on in 80% of cases; automatic snapshots are not verdict-bearing.", "DESIGN.md 4/C06"),
 "C10": ("reng", "exploration", "runtime monitoring: counter model compared after every step; concurrent writers with bounds on concurrent samples; counter agreement of all RW-listed replicas at settled points of controller histories",
         "Held on the generated histories: cached and persisted revision counter equal a model (+1 per applied write in RW, +0 in WO, explicit sets only in RW) after every step, across reopen, and under 2-16 concurrent writers (final == initial + N*M, concurrent samples between completed and issued).",
         "Crash points of the counter update are covered by C08; promotion equalisation by the controller engine.", "DESIGN.md 4/C10"),
 "C11": ("reng", "exploration", "runtime monitoring: cleaner-filter output checked against the property's predicate + before/after image comparison around deletions; on real processes a watcher over every replica's REST state checks each background removal against the predicate, one replica's first merge is cut short by SIGKILL to its sfold child; a worker built with jiva's debug tag runs the cleaner's deletion with a slow hole puncher (PUNCH_HOLE_TIMEOUT failpoint)",
         "Held on the generated histories: every name returned by the real candidate filter satisfies the property's predicate on the model chain; deletions through the cleaner route and the user route leave the live image and all retained user snapshots unchanged; in the real-process scenario (user deletions through the controller, a rebuild, the replicas' own cleaners merging under writes) every observed background removal satisfied the predicate and live data and retained user snapshots stayed equal to the model on every replica.",
         "The real cleaner loop (60 s ticker) runs in two replica-engine workers with a failing fold and, untouched, inside the real replica processes of the cluster scenario; its retention count is lowered only in the replica-engine workers.", "DESIGN.md 4/C11"),
 "C12": ("reng", "exploration", "runtime monitoring: chain well-formedness (files, attributes, parent/children links) + model equality after every valid and hostile management request, and across close/open; names of deleted snapshots reused; on real processes (quick: short form) a replica is rebuilt from peers holding snapshots marked as removed",
         "Held on the generated request sequences: after every request (valid, refused or no-op) the chain equals the model chain, is a simple path whose members all have data and metadata files, attributes and full read are unchanged by refused requests, and close+open reproduces chain, attributes, size, checkpoint and data.",
         "Replica-level API (what the REST handlers call); REST-level malformed input is C14's.", "DESIGN.md 4/C12"),
 "C16": ("reng", "exploration", "runtime monitoring: model comparison around resize requests (grow / shrink / garbage) incl. snapshot images, reopen and a copy of the directory taken when the call returns; the replica's REST resize action in 5 states x 8 size arguments (status and state must agree)",
         "Held on the generated histories: growth keeps the old range and every snapshot image, the added range reads zero and accepts writes, the size survives reopen and is already on disk when the call returns; shrink, garbage, empty and zero sizes are refused and change nothing.",
         "Replica side on the real engine; the controller side of Resize is exercised by the controller engine.", "DESIGN.md 4/C16"),
 "C17": ("reng", "exploration", "runtime monitoring: state-walk with every operation probed in every state (incl. an open whose last step fails), side effects detected by directory hash and counter",
         "Held on the generated walks over closed / open-without-mode / RW / WO: I/O and management calls fail on a closed replica without touching the directory, writes are applied only in RW/WO, chain surgery and counter updates are refused outside RW without side effects.",
         "Engine-level gates; the REST action table and the attach-only-when-closed clause are checked by the REST engine.", "DESIGN.md 4/C17"),
 "C02": ("ctlsim", "exploration", "runtime monitoring: per-operation quorum oracle over scripted per-replica outcomes (incl. answers released at the same instant by a barrier) + per-replica image comparison; thorough: errno injection into a running replica process with strace",
         "Held on the generated controller histories (RF 1..5, all fault kinds per replica per operation): no write/flush/unmap was acknowledged unless strictly more than half of the attached replicas applied it, every replica that failed an operation was detached when the call returned, and at quiescent points every attached replica held every acknowledged write.",
         "Scripted backends honour the backend contract; the rpc transport itself is C15's.", "DESIGN.md 4/C02"),
 "C03": ("ctlsim", "exploration", "runtime monitoring: read-only rule evaluated at settled points of membership walks (hooked state and GET /v1/volumes), with probe I/O and a quorum-loss race",
         "Held on the generated membership walks: at every settled point ReadOnly == (#RW < RF/2+1); mutating probes were refused without reaching a replica iff read-only and accepted whenever a quorum was RW.",
         "Evaluated at settled points (every triggered monitor event acted upon).", "DESIGN.md 4/C03"),
 "C04": ("ctlsim", "exploration", "runtime monitoring: per-read oracle (who served, what was returned) at every cursor position with read faults; orphaned rebuilding replica; full read sweeps after rebuilds of real replica processes",
         "Held on the generated histories: reads reached RW replicas only (WO/ERR replicas hold a poison pattern), successful reads equalled the model of acknowledged writes, failed readers were detached and another RW replica served, and reads failed when no RW replica existed.",
         "Same fakes as C02.", "DESIGN.md 4/C04"),
 "C05": ("ctlsim", "exploration", "runtime monitoring: minority-failure oracle over all three failure detectors in every order; real processes: SIGKILL/SIGSTOP and strace-injected disk errors (EIO/ENOSPC on pwrite/fsync/pread) on one of three replicas under load",
         "Held on the generated histories: whenever the survivors of an operation formed a majority including an RW replica the operation was acknowledged; failed replicas were ERR-or-absent at return and absent once their monitor event was consumed; detached replicas received no further call and came back only through add + sync + verify.",
         "Process kills of real replicas are exercised by the cluster engine.", "DESIGN.md 4/C05"),
 "C09": ("ctlsim", "exploration", "runtime monitoring: election oracle against harness ground truth (revision, state, liveness) over enumerated registration orders, quorum-type registrants and concurrent re-registrations after the leader died",
         "Held on the generated bootstrap sequences: no start signal before a majority registered, every fresh election chose a replica of maximal revision among registered, reachable, non-rebuilding ones, only the elected replica could start the volume, lower-revision replicas named in Start were not RW and served no read.",
         "Full stop-and-restart of real replicas is exercised by the cluster engine.", "DESIGN.md 4/C09"),
 "C13": ("ctlsim", "exploration", "runtime monitoring: per-replica totally ordered applied logs compared across replicas; checkpoint invariant at settled points",
         "Held on the generated histories: under 2-4 concurrent writers with per-call delays every snapshot cut the write stream at the same point on all replicas; snapshots were refused unless all RF were RW; a recorded checkpoint always implied all RF RW, presence in every chain, persistence on every replica and (when newly recorded) agreement on the latest snapshot; it was withdrawn when a replica left.",
         "Byte-identity of snapshot images on real replica directories is exercised by the cluster engine.", "DESIGN.md 4/C13"),
 "C18": ("ctlsim", "exploration", "runtime monitoring: structural invariants of the controller's three membership structures at settled points (hooked state, compared with what GET /v1/replicas reports) + call logs; scripted failures of single admission steps; read-only management requests (stats, volumes, replicas) polled while a failed replica is still listed; progress watchdog that reports a controller that no longer returns (with goroutine stacks)",
         "Held on the generated membership walks: replica list, replicator backend map, reader and writer lists and RWReplicaCount agreed at every settled point; no duplicates, never more than RF replicas or more than one WO; writes reached exactly the writers and detached replicas received no call after Close.",
         "State read through the verif-tagged VerifState hook under the controller lock.", "DESIGN.md 4/C18"),
 "C08": ("crashpt", "fault_enumeration", "runtime monitoring with ptrace-level fault injection: strace kills the victim before every state-changing syscall of the operation, fails every call once, and makes every directory fsync the first of a persistent flush failure (durable state = what the last good flush left); a checker process reopens the directory with the real code",
         "For the sampled (pre-state, operation) pairs every syscall boundary of the operation was enumerated: after process death before each state-changing call the directory reopened (with and without preload) with the chain before or after, acknowledged data and retained user snapshots unchanged and the counter not decreased; with each call failing once (ENOSPC; thorough also EIO) no operation reported success over a state other than the complete after-state and none left an unopenable directory; the durability lint (directory fsync after every directory-entry change, O_SYNC metadata temp files) passed on every reference trace.",
         "Process death, not power loss; syscall boundaries of the operation's own thread; pre-states and operations are sampled, boundaries within them are exhaustive.", "DESIGN.md 4/C08"),
 "C14": ("restfuzz", "exploration", "runtime monitoring: journalled request fuzzing of both REST routers (single requests, concurrent bursts, two-request lock convoys released in a chosen order) with panic capture, liveness probe and TryLock after every request, child-process death detection; replica stubs that end in the middle of the volume-delete request; every action in every replica mode; twin comparison of REST answers with the engine's verdict",
         "Held on the request matrix (all routes x methods x body classes x id classes x controller/replica states, each pair on a fresh state, plus drifting sequences, bursts of concurrent well-formed requests and lock convoys): no request terminated the process, made a handler panic, failed to return, left the liveness request unanswered or left the controller/replica mutex held.",
         "Handlers run in-process through router.ServeHTTP; outbound calls hit loopback addresses that refuse at once or the scripted replicas' stubs.", "DESIGN.md 4/C14"),
 "C15": ("rpcsim", "exploration", "runtime monitoring: real rpc.Client/Wire/Server against a scripted peer with an independent codec; porcupine linearizability check of end-to-end histories (incl. requests the store refuses); failure reporting through backend/remote's ping monitor on the controller engine in net mode",
         "Held on the generated scenarios: frames round-tripped unchanged in both directions (also with concurrent writers), every call received exactly the reply generated for its own request under bounded reordering, duplicates and unknown sequence numbers; end-to-end histories through the real server were linearizable per block; after a stall, a late reply, close, reset or garbage every pending and later call failed, no request was sent twice and the failure was reported on the close channel.",
         "Read/write deadlines 1 s via the production knobs; sync/unmap/ping deadlines are constants (30/40 s) and are exercised once in the thorough tier.", "DESIGN.md 4/C15"),
 "C07": ("cluster", "exploration", "runtime monitoring on real processes: kill/stop/death-inside-a-snapshot (strace-delivered SIGKILL) -> restart (also as a replacement on an empty directory) -> rebuild cycles under foreground writes with nine kinds of interruption (process kills at log markers, killed file transfers, death after the first metadata file), sync agents with narrow port ranges; round-robin read sweep + extent-exact directory comparison at promotion; sampled mode timeline",
         "Held (apart from the listed known finding F11) on the executed rebuild cycles: when the rebuilt replica was first listed RW every chunk read at every reader position equalled the model of acknowledged writes (the promoted replica serves through its live block map), its stored live image and every user snapshot were byte-identical to the source's and equal to the model, revision counters and chains were equal, never two replicas were WO at once, and a restarted replica only became RW after its process ran reload-and-verify.",
         "Schedules come from OS timing, seeded and log-marker-triggered kills; bounded waits expiring are inconclusive.", "DESIGN.md 4/C07"),
 "C19": ("cluster", "exploration", "runtime monitoring on real processes: clone replica started against a live source volume; replica-side status sampling every 3 ms (RW implies completed; completed implies not rebuilding, full chain, counter of S); image and counter comparison at completion",
         "Held on the executed clone scenarios (snapshot at varying chain positions; no fault, source writes during the copy, source killed, clone killed, non-existent snapshot): the clone never reported mode RW without status completed, the completed clone read back exactly the snapshot image (model and revert-on-copy of the source directory), carried the revision counter recorded for the snapshot and accepted writes; a clone that cannot succeed was never served.",
         "The new controller holds its lock while polling, so intermediate states are sampled at the clone replica's REST endpoint.", "DESIGN.md 4/C19"),
}

NOT_YET = "check not built yet in this round (see DESIGN.md build order); no verdict claimed"

def main():
    head = subprocess.run(["git", "-C", "/repo", "log", "--format=%h %s"], capture_output=True, text=True).stdout.splitlines()
    hooks = [l.split()[0] for l in head if l.split(" ", 1)[1].startswith("verif hooks")]
    m = {
     "version": 1,
     "setup_cmd": "cd /verif/harness && GOFLAGS=-mod=mod GOPROXY=off GOSUMDB=off GOTOOLCHAIN=local CGO_ENABLED=0 go build -tags verif -o /verif/.bin/vcheck ./cmd/vcheck",
     "hooks": {
       "guard": "verif",
       "enable": "go build -tags verif (the harness module replaces github.com/openebs/jiva with /repo, so every check compiles /repo's working tree with the tag on)",
       "baseline_off_cmd": "cd /repo && GOFLAGS=-mod=mod GOPROXY=off GOSUMDB=off go test -vet=off -count=1 -timeout 25m ./...",
       "source_commits": hooks,
       "add_only": True,
     },
     "engines": [
       {"name": "reng", "path": "harness/internal/reng", "serves_properties": ["C01", "C06", "C10", "C11", "C12", "C16", "C17"],
        "kind_free_text": "real replica engine (replica.Server on ext4, real hole puncher, real fold) + reference model of block image and snapshot chain"},
       {"name": "crashpt", "path": "harness/internal/crashpt", "serves_properties": ["C08", "C10"],
        "kind_free_text": "victim process running one replica operation on its locked main thread under strace (trace, SIGKILL before the k-th call, errno injection) + checker process reopening the directory"},
       {"name": "restfuzz", "path": "harness/internal/restfuzz", "serves_properties": ["C14", "C17"],
        "kind_free_text": "real controller/rest and replica/rest routers driven in-process; journal-before-execute, panic capture, liveness + TryLock oracle; action-table matrix and attach rule with the real remote.Factory"},
       {"name": "rpcsim", "path": "harness/internal/rpcsim", "serves_properties": ["C15"],
        "kind_free_text": "real rpc.Client / rpc.Wire / rpc.Server over loopback TCP against a scripted peer with an independent frame codec; porcupine for end-to-end histories"},
       {"name": "cluster", "path": "harness/internal/cluster", "serves_properties": ["C02", "C04", "C05", "C06", "C07", "C09", "C10", "C11", "C12", "C13", "C19"],
        "kind_free_text": "in-process controller with the real remote factory + REST server, real jiva replica and sync-agent OS processes on their own loopback addresses, supervisor-style kill/restart, model of acknowledged writes"},
       {"name": "ctlsim", "path": "harness/internal/ctlsim", "serves_properties": ["C01", "C02", "C03", "C04", "C05", "C09", "C10", "C13", "C15", "C16", "C18", "C19"],
        "kind_free_text": "real controller.Controller over scripted types.Backend fakes (per-call outcome scripts, applied logs, remote.Remote-like monitor channel) + HTTP stubs of the replica REST API; net mode: the real backend/remote factory, rpc client and server and ping monitor between the controller and scripted replica endpoints"},
     ],
     "checks": [],
     "notes": "All checks: ./check <ID> quick|thorough. Exit 0 held / 1 VIOLATION / 2 INCONCLUSIVE (harness floor not met) / 3 harness build failure. Known findings: known_findings.json.",
     "not_applicable": [],
    }
    for pid in ALL:
        if pid in CHECKS:
            eng, cat, tech, text, note, ref = CHECKS[pid]
            m["checks"].append({
              "property_id": pid,
              "quick_cmd": "./check %s quick" % pid,
              "thorough_cmd": "./check %s thorough" % pid,
              "evidence_file": "/verif/evidence/%s.json" % pid,
              "engine": eng,
              "level_claimed": {"category": cat, "text": text, "design_ref": ref},
              "level_note": note,
              "technique": tech,
            })
            if eng == "reng":
                m["checks"][-1]["replay_cmd_template"] = "./check %s --replay {path}" % pid
        else:
            m["not_applicable"].append({"property_id": pid, "reason": NOT_YET})
    json.dump(m, open("/verif/MANIFEST.json", "w"), indent=1)
    print("checks:", len(m["checks"]), "not_applicable:", len(m["not_applicable"]))

main()
