#!/bin/sh
# tools/collect_thorough.sh <run-dir> <ids...> : dev aid - copies the evidence files a thorough run wrote in its own
# snapshot (vp run works on a copy of the committed /verif) to evidence/thorough/<id>.json; /verif/evidence/<id>.json
# itself is rewritten by whichever tier ran last in /verif.
RUN="$1"; shift
mkdir -p /verif/evidence/thorough
for id in "$@"; do
  f="$RUN/evidence/$id.json"
  if [ -f "$f" ] && grep -q '"tier": *"thorough"' "$f"; then cp "$f" /verif/evidence/thorough/$id.json; echo "copied $id"; else echo "skipped $id"; fi
done
