#!/bin/sh
# tools/trymut.sh <patch.diff> <ID> [tier] : apply a seeded change to /repo, run one check, undo the change.
# Dev-time only (never registered in MANIFEST). Prints FIRED / MISSED / BROKEN.
P="$1"; ID="$2"; TIER="${3:-quick}"
if [ -n "$(git -C /repo status --porcelain)" ]; then echo "/repo not clean"; exit 9; fi
if ! git -C /repo apply --check "$P" 2>/dev/null; then echo "PATCH-DOES-NOT-APPLY $P"; exit 8; fi
git -C /repo apply "$P"
mkdir -p /tmp/trymut; rm -f /verif/evidence/"$ID".json.bak; cp /verif/evidence/"$ID".json /tmp/trymut/"$ID".json.bak 2>/dev/null
rm -rf /tmp/trymut/replays; mv /verif/evidence/replays /tmp/trymut/replays 2>/dev/null
cd /verif && ./check "$ID" "$TIER" > /tmp/trymut/out.log 2>&1; rc=$?
git -C /repo checkout -- .
grep -E "VIOLATION|KNOWN|INCONCLUSIVE|signature|what:|BUILD-FAILED" /tmp/trymut/out.log | head -8
tail -1 /tmp/trymut/out.log
rm -rf /verif/evidence/replays; mv /tmp/trymut/replays /verif/evidence/replays 2>/dev/null
cp /tmp/trymut/"$ID".json.bak /verif/evidence/"$ID".json 2>/dev/null
case $rc in 1) echo "== FIRED ($ID $TIER) $P";; 0) echo "== MISSED ($ID $TIER) $P";; *) echo "== BROKEN rc=$rc ($ID $TIER) $P";; esac
