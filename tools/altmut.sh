#!/bin/sh
# tools/altmut.sh <patch.diff> <ID> [tier] : dev-time, parallel-safe variant of trymut.sh: applies the seeded
# change in a scratch worktree of /repo's HEAD under /tmp/altmut, runs the check against it, removes the worktree.
P="$1"; ID="$2"; TIER="${3:-quick}"
W=/tmp/altmut/$$; mkdir -p /tmp/altmut
git -C /repo worktree add --detach "$W" HEAD >/dev/null 2>&1 || { echo "worktree failed"; exit 9; }
if ! git -C "$W" apply "$P" 2>/dev/null; then echo "== PATCH-DOES-NOT-APPLY $P"; git -C /repo worktree remove --force "$W"; exit 8; fi
E=/tmp/altmut/ev$$; mkdir -p $E
cd /verif && VERIF_ALT_REPO="$W" VERIF_EVIDENCE_ROOT="$E" ./check "$ID" "$TIER" > $E/out.log 2>&1; rc=$?
grep -E "VIOLATION|KNOWN|INCONCLUSIVE|signature|what:|BUILD-FAILED" $E/out.log | head -6
tail -1 $E/out.log
git -C /repo worktree remove --force "$W"; rm -rf /verif/.bin/alt-_tmp_altmut_$$ $E
case $rc in 1) echo "== FIRED ($ID $TIER) $P";; 0) echo "== MISSED ($ID $TIER) $P";; *) echo "== BROKEN rc=$rc ($ID $TIER) $P";; esac
