#!/bin/sh
# tools/confirm_mut.sh <name> <mutdir> <demo-file> <dest-pkg-dir> <run-regex> [ENV=VAL ...]
# Confirms a seeded change in a scratch worktree of /repo HEAD: clean tree builds + demo passes; patched tree builds,
# util tests pass, demo fails. Copies patch+demo to /verif/seeded/<name>/ and writes confirm.json. Removes the worktree.
NAME="$1"; M="$2"; DEMO="$3"; DEST="$4"; RUN="$5"; shift 5
export GOFLAGS=-mod=mod GOPROXY=off GOSUMDB=off GOTOOLCHAIN=local
W=/tmp/confirm/$NAME; rm -rf "$W"; mkdir -p /tmp/confirm /tmp/confirm/scratch
git -C /repo worktree add --detach "$W" HEAD >/dev/null 2>&1 || { echo "$NAME: worktree failed"; exit 9; }
cd "$W"; mkdir -p "$DEST"; if [ "$DEMO" = ALL ]; then cp "$M"/*_test.go "$DEST/"; else cp "$M/$DEMO" "$DEST/"; fi
run_demo() { if [ "$RUN" = GORUN ]; then env TMPDIR=/tmp/confirm/scratch "$@" timeout 900 go run "./$DEST" > "$W/demo.$PHASE.log" 2>&1; else env TMPDIR=/tmp/confirm/scratch C14_SCRATCH=/tmp/confirm/scratch C13_DEMO_DIR=/tmp/confirm/scratch C06_SCRATCH=/tmp/confirm/scratch DEMO_SCRATCH=/tmp/confirm/scratch "$@" timeout 1500 go test -vet=off -count=1 -timeout 1400s -run "$RUN" "./$DEST/" > "$W/demo.$PHASE.log" 2>&1; fi; }
PHASE=clean; go build ./... > build.clean.log 2>&1; bc=$?; run_demo "$@"; dc=$?
if ! git apply "$M/patch.diff" 2>apply.log; then echo "$NAME: PATCH-DOES-NOT-APPLY"; cat apply.log | head -3; cd /; git -C /repo worktree remove --force "$W"; exit 8; fi
PHASE=patched; go build ./... > build.patched.log 2>&1; bp=$?
go test -vet=off -count=1 ./util/... > util.patched.log 2>&1; up=$?
run_demo "$@"; dp=$?
echo "$NAME: clean build=$bc demo=$dc | patched build=$bp util=$up demo=$dp"
mkdir -p /verif/seeded/$NAME; cp "$M/patch.diff" /verif/seeded/$NAME/; if [ "$DEMO" = ALL ]; then cp "$M"/*_test.go /verif/seeded/$NAME/; else cp "$M/$DEMO" /verif/seeded/$NAME/; fi; [ -f "$M/README.md" ] && cp "$M/README.md" /verif/seeded/$NAME/AUTHOR_README.md
printf '{"clean_build_rc":%s,"clean_demo_rc":%s,"patched_build_rc":%s,"patched_util_tests_rc":%s,"patched_demo_rc":%s,"demo_cmd":"cp %s %s/ && go test -vet=off -count=1 -run %s ./%s/","base_commit":"%s"}\n' $bc $dc $bp $up $dp "$DEMO" "$DEST" "$RUN" "$DEST" "$(git -C /repo rev-parse --short HEAD)" > /verif/seeded/$NAME/confirm.json
tail -3 "$W/demo.patched.log" | cut -c1-200 > /verif/seeded/$NAME/demo_patched_tail.txt
cd /; git -C /repo worktree remove --force "$W"; rm -rf /tmp/confirm/scratch/*
