#!/usr/bin/env python3
"""Writes /verif/seeded/<name>/meta.json from the table below + the confirm.json produced by tools/confirm_mut.sh."""
import json, os
T = {
 "C01-A": ("C01", "replica/diff_disk.go RemoveIndex: renumbering uses > instead of >=", "chain of >=3 snapshots, a block whose newest copy is in the middle one, deletion on the running replica, read before the next reopen", "C01 quick (fullread:mismatch:remove|rawremove)"),
 "C01-B": ("C01", "replica/diff_disk.go readModifyWrite: skips the chain read when the block map entry is 0", "reopen/reload without extent preload, then a sub-4KiB write into a block holding data not touched since the reopen", "C01 quick (fullread:mismatch / read:mismatch)"),
 "C02-A": ("C02", "controller/multi_writer_at.go: majority test rewritten as errCount <= n/2", "even number of attached replicas and exactly half failing the same write/flush", "C02 quick (acknowledged-without-majority)"),
 "C02-B": ("C02", "controller/replicator.go: write errors mapped through readerIndex instead of writerIndex", "a WO replica attached and a write failing on it (or on a replica after it in map order)", "C02 quick, C05 quick (failed-replica-still-attached / healthy-replica-detached)"),
 "C03-A": ("C03", "controller/control.go UpdateVolStatus: threshold (RF+q+1)/2", "even RF (2 or 4) with exactly RF/2 replicas RW", "C03 quick (readonly-flag-wrong)"),
 "C03-B": ("C03", "controller/replicator.go SetMode: StopMonitoring dropped for ERR", "a replica marked ERR by snapshot/resize failure or operator set-mode (not by an I/O error)", "C03 quick (readonly flag / controller crash on the lingering ERR backend), C18 settle rule"),
 "C04-A": ("C04", "controller/replicator.go ReadAt: fail-over loop does not wrap around", ">=2 RW replicas, read error on the chosen one while the cursor is on the last reader slot", "C04 quick (read-failed-with-healthy-RW)"),
 "C04-B": ("C04", "controller/control.go handleErrorNoLock: 'good replica' test != ERR instead of == RW", "rebuild in progress (WO attached) and every RW replica failing the same read", "C04 quick (read-returned-short-without-error)"),
 "C05-A": ("C05", "controller/multi_writer_at.go Sync: replicaErrCount < n/2", "odd number of writers (3/5) and a replica failure first observed by a Sync", "C05 quick (minority-failure-surfaced:sync)"),
 "C05-B": ("C05", "controller/replicator.go WriteAt: readerIndex instead of writerIndex (write path only)", "WO replica attached and a write failing on it", "C05 quick (failed-replica-still-attached)"),
 "C06-A": ("C06", "replica/diff_disk.go RemoveIndex: SnapIndx arithmetic with reversed comparison", "reclamation on, user snapshot U with >=3 snapshots above, deletion of a middle one above U, then overwrite of a U-owned block", "C06 quick (structure:user-snapshot-outside-reclamation-boundary); behavioural oracle at thorough (snapshot:changed)"),
 "C06-B": ("C06", "replica/server.go UpdateLUNMap: flush guard uses fileIndx instead of prevHoleFileIndx", "reload without preload + UpdateLUNMap with writes landing between extent scan and merge, covering a U-owned block followed by an A-owned block", "C06 quick (snapshot:changed:lunmap) via log-hook window injection"),
 "C07-A": ("C07", "controller/control.go addReplicaNoLock: second canAdd reduced to hasReplica", "RF>=3 and two add requests overlapping inside factory.Create (the add signals after a start)", "C07 quick (more-than-one-WO during bring-up)"),
 "C07-B": ("C07", "replica/backup.go preload: post-loop flush guard >= instead of >", "user snapshot, later overwrites of its blocks, a rebuild while the source keeps running, inspection of the snapshot content", "C07 quick (promotion:stored-image-differs:snapshot)"),
 "C08-A": ("C08", "replica/replica.go linkDisk: os.Link replaced by os.Rename", "process death or a failing call between the first rename and the publication of volume.meta during a snapshot", "C08 quick (snapshot:kill-before / ENOSPC ... state-bad)"),
 "C08-B": ("C08", "replica/replica.go revertDisk: fallback re-encodes the new info instead of r.info", "one transient ENOSPC/EIO on the volume.meta update inside Revert, then process death", "C08 quick (revert:ENOSPC:...:failure-before-commit-left-new-state)"),
 "C09-A": ("C09", "controller/control.go registerReplica: MaxRevReplica cleared before the delete of the dead leader", "RF>=3, elected leader dies before /start, a lower-revision replica re-registers before another up-to-date one", "C09 quick (start-signal-before-majority, with the reachable-majority rule)"),
 "C09-B": ("C09", "controller/control.go Start: revision check folded into one pass", "multi-address Start with the elected replica first and a later address with a higher revision", "C09 quick (lower-revision-replica-RW-after-start)"),
 "C10-A": ("C10", "replica/revision_counter.go increaseRevisionCounter: file write outside the lock", ">=2 concurrent writers on one replica", "C10 quick (rev:concurrent-sample-out-of-bounds / rev:count-differs)"),
 "C10-B": ("C10", "replica/revision_counter.go SetRevisionCounter: no-op when cache >= counter", "promotion of a replica whose own counter is higher than the source's", "C10 quick (rev:count-differs after an explicit lower set)"),
 "C11-A": ("C11", "sync/sync.go GetDeleteCandidateChain: merge-target guard reads the candidate's Removed flag", "a marked-removed candidate directly above a retained user snapshot", "C11 quick (candidates:forbidden:merge target ...)"),
 "C11-B": ("C11", "sync/sync.go InternalSnapshotCleaner: 'err :=' shadows the loop error", "the fold step failing for the snapshot the cleaner picked", "C11 quick (after-deletion:C01:fullread:mismatch in the real cleaner-loop scenario)"),
 "C12-A": ("C12", "replica/server.go Revert: closes the replaced Replica (stale volume.meta written back)", "successful revert, then process death before the next metadata write, then restart", "C12 quick (reload:error / reopen failure after revert)"),
 "C12-B": ("C12", "replica/replica.go createDisk: chain-limit check off by two", "chain filled to MAX_CHAIN_LENGTH plus one snapshot, then reopen", "C12 quick (reopen:open-failed:snapshot) with small MAX_CHAIN_LENGTH cases"),
 "C13-A": ("C13", "controller/control.go UpdateCheckpoint: checkpoint assigned before the fan-out and kept on failure", "all RF RW, a membership event, set-checkpoint failing on a strict subset of healthy replicas", "C13 quick (checkpoint-not-persisted)"),
 "C13-B": ("C13", "replica/replica.go createDisk: SnapIndx computed before the append", "user snapshot on a live replica with no reopen, then overwrite with reclamation on (or Unmap)", "C06 quick (snapshot:changed)"),
 "C14-A": ("C14", "replica/revision_counter.go SetRevisionCounter: RUnlock missing on the refusal branch", "open replica not in RW, POST setrevisioncounter", "C14 quick (wedged-after:replica:POST ...setrevisioncounter)"),
 "C14-B": ("C14", "controller/rest/model.go DencodeID: negative strings.Repeat count", "replica id with len>4 and len%4!=0 (padding stripped)", "C14 quick (handler-panic:controller:...)"),
 "C15-A": ("C15", "rpc/wire.go Read: one shared payload buffer per Wire", ">=2 replies with payload in flight on one connection", "C15 quick (e2e:not-linearizable / reply-misdelivered)"),
 "C15-B": ("C15", "rpc/client.go operation: retry < opRetries -> <=", "peer stalls longer than the deadline while TCP stays healthy", "C15 quick (request-sent-twice / deadline-not-enforced)"),
 "C16-A": ("C16", "replica/replica.go Resize: only the head file is extended", ">=1 snapshot in the chain when growing, then a read in the added range", "C16 quick (resize:new-range-read-error)"),
 "C16-B": ("C16", "controller/replicator.go Resize: filter mode == RW", "a WO replica attached when Controller.Resize is called", "C16 quick (resize:replica-not-resized) on the controller engine"),
 "C17-A": ("C17", "replica/server.go Open: already-open check moved before the lock", ">=2 concurrent open/attach requests on a closed replica", "C17 quick (attach:attached-twice-concurrently)"),
 "C17-B": ("C17", "replica/replica.go PrepareRemoveDisk: mode guard moved after markDiskAsRemoved", "open non-RW replica and a removable snapshot", "C17 quick (gate:...accepted-in-WO / refused-but-directory-changed)"),
 "C18-A": ("C18", "controller/control.go addReplicaNoLock: second canAdd reduced to hasReplica", "two AddReplica requests overlapping inside factory.Create", "C18 quick (more-than-one-WO) via concurrent-add"),
 "C18-B": ("C18", "controller/control.go monitoring: returns early on a nil monitor event", "a control-plane fan-out (snapshot/resize/set-mode ERR) failing on one replica", "C18 quick (settle:replica-with-fired-monitor-still-attached)"),
 "C19-A": ("C19", "sync/sync.go CloneReplica: source's current revision counter instead of the snapshot's", "source written to after S was cut", "C19 quick (clone-revision-counter-differs)"),
 "C19-B": ("C19", "app/replica.go startReplica: clone error path falls through to 'completed'", "a fault during the copy / snapshot missing at the source", "C19 quick (failed-clone-served)"),
 "C19-C": ("C19", "app/replica.go startReplica: restart condition skips the copy unless status is empty or error", "clone replica killed during the copy and restarted", "C19 quick (clone-image-differs-from-snapshot:kill-clone)"),
}
for name,(prop,change,needs,caught) in T.items():
    d='/verif/seeded/'+name
    if not os.path.isdir(d): print('missing',name); continue
    c=json.load(open(d+'/confirm.json')) if os.path.exists(d+'/confirm.json') else {}
    meta={"property":prop,"change":change,"needs_to_manifest":needs,"detected_by":caught,
          "confirmed":{"scratch_worktree_of":c.get("base_commit"),"clean_tree":{"go build ./...":c.get("clean_build_rc"),"demo":c.get("clean_demo_rc")},
                       "patched_tree":{"go build ./...":c.get("patched_build_rc"),"go test ./util/...":c.get("patched_util_tests_rc"),"demo (must be non-zero)":c.get("patched_demo_rc")},
                       "demo_cmd":c.get("demo_cmd")},
          "how_checked":"tools/altmut.sh (scratch worktree + VERIF_ALT_REPO) or tools/trymut.sh (git -C /repo apply; ./check <ID> <tier>; git -C /repo checkout -- .)"}
    json.dump(meta,open(d+'/meta.json','w'),indent=1)
print('ok',len(T))
