package main

import (
	"encoding/json"
	"strings"
	"time"
)

func tierN(tier string, q, t int) int {
	if tier == "thorough" {
		return t
	}
	return q
}

// journalOp extracts the operation kind of the last journal line.
func journalOp(last string) string {
	var m map[string]interface{}
	if json.Unmarshal([]byte(last), &m) == nil {
		if k, ok := m["k"].(string); ok {
			return k
		}
		if _, ok := m["case"]; ok {
			return "case-start"
		}
	}
	return "unknown"
}

// jivaCrash tells whether a worker's log shows a death inside jiva code
// (panic / Go fatal error / logrus.Fatal) as opposed to a harness problem.
func jivaCrash(log string) string {
	switch {
	case strings.Contains(log, "fatal error:"):
		i := strings.Index(log, "fatal error:")
		return firstLine(log[i:])
	case strings.Contains(log, "panic:"):
		i := strings.Index(log, "panic:")
		return firstLine(log[i:])
	case strings.Contains(log, "level=fatal"):
		i := strings.Index(log, "level=fatal")
		return firstLine(log[i:])
	}
	return ""
}

func firstLine(s string) string {
	if i := strings.IndexByte(s, '\n'); i >= 0 {
		s = s[:i]
	}
	if len(s) > 200 {
		s = s[:200]
	}
	return s
}

func rengCrash(prop string) func(string, string) (string, string) {
	return func(last, log string) (string, string) {
		c := jivaCrash(log)
		if c == "" {
			return "", ""
		}
		return "crash:" + journalOp(last), "replica engine died during a valid history (" + c + "); last journalled op: " + last
	}
}

var rengAssume = []string{
	"sequential histories per replica (the data path is serialised by the controller lock and the one-message-at-a-time rpc server)",
	"ext4 with 4 KiB blocks, O_DIRECT, FIEMAP and hole punching as in production",
	"snapshot images are read by revert on an extent-exact copy of the directory",
}

var plans = map[string]*Plan{
	"C01": {
		Level: "exploration",
		Rule: "generated histories (15-60 ops: writes/reads of sector, in-block, spanning, block, multi-block, first/last and ownership-straddling shape; user/auto snapshots; cleaner and raw removals; reverts; reopen +-preload; reload; resize) on volumes of 16-512 blocks with reclamation on/off; " +
			"a case is non-trivial if it has >=1 unaligned write, >=1 chain mutation and >=1 reopen/reload; distinct = hash of the op-kind/alignment-class sequence",
		Assumptions: rengAssume,
		Floor:       map[string]int64{"writes": 200, "quiescent_checks": 50},
		Jobs: func(tier string) []Job {
			return jobs("reng", 16, tierN(tier, 6, 120), "", time.Duration(tierN(tier, 10, 60))*time.Minute)
		},
		CrashSig: rengCrash("C01"),
	},
	"C06": {
		Level: "exploration",
		Rule: "C01's history generator with reclamation on in 80% of cases and extra weight on multi-block writes that straddle blocks owned by different chain files; every quiescent point compares revert-on-copy of every retained user-created snapshot with its image at creation, in-place reverts compare the live volume with the image; " +
			"non-trivial = >=1 unaligned write, >=1 chain mutation and >=1 reopen/reload; distinct = hash of the op-kind/alignment-class sequence",
		Assumptions: rengAssume,
		Floor:       map[string]int64{"snapshot_images_compared": 100, "writes": 200},
		Jobs: func(tier string) []Job {
			return jobs("reng", 16, tierN(tier, 6, 150), "", time.Duration(tierN(tier, 10, 80))*time.Minute)
		},
		CrashSig: rengCrash("C06"),
	},
	"C11": {
		Level: "exploration",
		Rule: "histories biased to long chains with user/auto/marked-removed members and a checkpoint at varying positions; every answer of the real cleaner filter (GetDeleteCandidateChain) is checked name by name against the predicate of the property; deletions go through the cleaner route (candidate -> PrepareRemoveDisk -> fold -> RemoveDiffDisk) and the user route (mark removed); " +
			"full live read and revert-on-copy of every retained user snapshot are compared before/after; non-trivial as C01; distinct = hash of the op-kind sequence",
		Assumptions: rengAssume,
		Floor:       map[string]int64{"candidate_queries": 50, "removals": 10, "snapshot_images_compared": 50},
		Jobs: func(tier string) []Job {
			return jobs("reng", 16, tierN(tier, 6, 150), "", time.Duration(tierN(tier, 10, 80))*time.Minute)
		},
		CrashSig: rengCrash("C11"),
	},
}
