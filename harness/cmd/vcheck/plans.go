package main

import (
	"encoding/json"
	"strings"
	"time"
)

func tierN(tier string, q, t int) int {
	if tier == "thorough" {
		return t
	}
	return q
}

// journalOp extracts the operation kind of the last journal line.
func journalOp(last string) string {
	var m map[string]interface{}
	if json.Unmarshal([]byte(last), &m) == nil {
		if k, ok := m["k"].(string); ok {
			return k
		}
		if _, ok := m["case"]; ok {
			return "case-start"
		}
	}
	return "unknown"
}

// jivaCrash tells whether a worker's log shows a death inside jiva code
// (panic / Go fatal error / logrus.Fatal) as opposed to a harness problem.
func jivaCrash(log string) string {
	if harnessFault(log) {
		return "" // a defect of the harness itself: inconclusive, never a verdict about jiva
	}
	switch {
	case strings.Contains(log, "fatal error:"):
		i := strings.Index(log, "fatal error:")
		return firstLine(log[i:])
	case strings.Contains(log, "panic:"):
		i := strings.Index(log, "panic:")
		return firstLine(log[i:])
	case strings.Contains(log, "level=fatal"):
		i := strings.Index(log, "level=fatal")
		return firstLine(log[i:])
	}
	return ""
}

// harnessFault tells whether the first non-runtime frame of the crashing
// goroutine belongs to the harness rather than to jiva or its dependencies.
func harnessFault(log string) bool {
	i := strings.Index(log, "goroutine ")
	if i < 0 {
		return false
	}
	for _, l := range strings.Split(log[i:], "\n") {
		l = strings.TrimSpace(l)
		if l == "" || strings.HasPrefix(l, "goroutine ") || strings.HasPrefix(l, "/") || strings.HasPrefix(l, "runtime.") || strings.HasPrefix(l, "panic(") || strings.HasPrefix(l, "sync.") || strings.HasPrefix(l, "internal/") {
			if strings.HasPrefix(l, "goroutine ") && !strings.Contains(l, "[running]") && !strings.HasPrefix(log[i:], l) {
				return false // next goroutine reached
			}
			continue
		}
		return strings.HasPrefix(l, "verif/harness/") || strings.HasPrefix(l, "main.")
	}
	return false
}

func firstLine(s string) string {
	if i := strings.IndexByte(s, '\n'); i >= 0 {
		s = s[:i]
	}
	if len(s) > 200 {
		s = s[:200]
	}
	return s
}

func rengCrash(prop string) func(string, string) (string, string) {
	return func(last, log string) (string, string) {
		c := jivaCrash(log)
		if c == "" {
			return "", ""
		}
		return "crash:" + journalOp(last), "replica engine died during a valid history (" + c + "); last journalled op: " + last
	}
}

var rengAssume = []string{
	"sequential histories per replica (the data path is serialised by the controller lock and the one-message-at-a-time rpc server)",
	"ext4 with 4 KiB blocks, O_DIRECT, FIEMAP and hole punching as in production",
	"snapshot images are read by revert on an extent-exact copy of the directory",
}

var plans = map[string]*Plan{
	"C01": {
		Level: "exploration",
		Rule: "generated histories (15-60 ops: writes/reads of sector, in-block, spanning, block, multi-block, first/last and ownership-straddling shape; user/auto snapshots; cleaner and raw removals; reverts; reopen +-preload; reload; resize) on volumes of 16-512 blocks with reclamation on/off; " +
			"a case is non-trivial if it has >=1 unaligned write, >=1 chain mutation and >=1 reopen/reload; distinct = hash of the op-kind/alignment-class sequence",
		Assumptions: rengAssume,
		Floor:       map[string]int64{"writes": 200, "quiescent_checks": 50, "range_probes": 20},
		Jobs: func(tier string) []Job {
			js := jobs("reng", 14, tierN(tier, 7, 135), "", time.Duration(tierN(tier, 10, 60))*time.Minute)
			// the controller's range check on the controller engine
			return append(js, jobs("ctlsim", 2, tierN(tier, 50, 1250), "", time.Duration(tierN(tier, 10, 60))*time.Minute)...)
		},
		CrashSig: rengCrash("C01"),
	},
	"C06": {
		Level: "exploration",
		Rule: "C01's history generator with reclamation on in 80% of cases and extra weight on multi-block writes that straddle blocks owned by different chain files; every quiescent point compares revert-on-copy of every retained user-created snapshot with its image at creation, in-place reverts compare the live volume with the image; " +
			"non-trivial = >=1 unaligned write, >=1 chain mutation and >=1 reopen/reload; distinct = hash of the op-kind/alignment-class sequence" + "; on real processes (cluster engine, scenario snaplife): 16-19 user snapshots cut into a write stream through the controller REST API, all but 2-3 deleted through DELETE deleteSnapshot (the checkpoint must be refused), one replica killed and rebuilt so that the checkpoint moves above them, then the replicas' own background cleaners (60 s ticker) merge them while writes go on - every chain member that vanishes is checked against the selection predicate of the statement on the replica's last sampled REST state, live read at every reader position, stored live image and every retained user snapshot (revert-on-copy, every replica) are compared with the model; then Controller.Revert through REST to a retained user snapshot and a full read (thorough: also a full restart before it: retained members and attributes survive)",
		Assumptions: rengAssume,
		Floor:       map[string]int64{"snapshot_images_compared": 100, "writes": 200, "controller_reverts": 30, "controller_reverts_with_a_refusing_replica": 10},
		Jobs: func(tier string) []Job {
			js := jobs("reng", 16, tierN(tier, 6, 150), "", time.Duration(tierN(tier, 10, 80))*time.Minute)
			// controller side of the revert clause (E2): Controller.Revert over the replicas' REST API with one replica
			// refusing it in two thirds of the cases, full reads at every reader position against the snapshot's model image
			js = append(js, jobs("ctlsim", 3, tierN(tier, 25, 400), "", time.Duration(tierN(tier, 10, 60))*time.Minute)...)
			return append(js, snapLife(tier, 1, 3)...)
		},
		CrashSig: rengCrash("C06"),
	},
	"C11": {
		Level: "exploration",
		Rule: "histories biased to long chains with user/auto/marked-removed members and a checkpoint at varying positions; every answer of the real cleaner filter (GetDeleteCandidateChain) is checked name by name against the predicate of the property; deletions go through the cleaner route (candidate -> PrepareRemoveDisk -> fold -> RemoveDiffDisk) and the user route (mark removed); " +
			"full live read and revert-on-copy of every retained user snapshot are compared before/after; two workers additionally run the real background cleaner (sync.InternalSnapshotCleaner, 60 s ticker, checkpoint from a stub of GET /v1/checkpoint, coalesce through the real sync-agent router re-executing sfold) for one round (thorough: two) with the first fold made to fail; non-trivial as C01; distinct = hash of the op-kind sequence" + "; on real processes (cluster engine, scenario snaplife): 16-19 user snapshots cut into a write stream through the controller REST API, all but 2-3 deleted through DELETE deleteSnapshot (the checkpoint must be refused), one replica killed and rebuilt so that the checkpoint moves above them, then the replicas' own background cleaners (60 s ticker) merge them while writes go on - every chain member that vanishes is checked against the selection predicate of the statement on the replica's last sampled REST state, live read at every reader position, stored live image and every retained user snapshot (revert-on-copy, every replica) are compared with the model; then Controller.Revert through REST to a retained user snapshot and a full read (thorough: also a full restart before it: retained members and attributes survive)",
		Assumptions: rengAssume,
		Floor:       map[string]int64{"candidate_queries": 50, "removals": 10, "snapshot_images_compared": 50, "cleaner_rounds": 1, "snaplife_deletion_phases": 1, "slow_puncher_deletions": 3, "deletions_started_with_punches_queued": 2},
		Jobs: func(tier string) []Job {
			js := jobs("reng", 16, tierN(tier, 6, 150), "", time.Duration(tierN(tier, 10, 80))*time.Minute)
			return append(js, snapLife(tier, 2, 4)...)
		},
		// the cleaner's deletion on a replica whose hole puncher is slow (jiva's debug failpoint PUNCH_HOLE_TIMEOUT)
		DebugJobs: func(tier string) []Job {
			return jobs("reng", tierN(tier, 1, 3), tierN(tier, 3, 12), "slowpunch=1", time.Duration(tierN(tier, 10, 40))*time.Minute)
		},
		CrashSig: rengCrash("C11"),
	},
	"C10": {
		Level: "exploration",
		Rule: "histories of writes (all shapes), RW<->WO mode flips, explicit counter sets (accepted only in RW), reopen +-preload, snapshots and runs of 2-16 concurrent writers on disjoint blocks; after every step the in-memory and the persisted counter are compared with a model (+1 per applied write in RW, +0 in WO), concurrent samples must lie between completed and issued writes; " +
			"non-trivial = >=1 unaligned write, a mode flip or set, and a reopen; distinct = hash of the op-kind sequence",
		Assumptions: rengAssume,
		Floor:       map[string]int64{"revision_samples": 300, "concurrent_runs": 5, "rw_counter_comparisons": 100},
		Jobs: func(tier string) []Job {
			js := jobs("reng", 11, tierN(tier, 8, 130), "", time.Duration(tierN(tier, 10, 80))*time.Minute)
			// crash points of the write path (E6): the counter after process death at any syscall boundary
			js = append(js, jobs("crashpt", 3, tierN(tier, 1, 6), "tier="+tier, time.Duration(tierN(tier, 10, 80))*time.Minute)...)
			// real processes (E5): a replica stalling for 1.5x the rpc deadline, rebuilds; all RW replicas report the same count
			js = append(js, jobs("cluster", tierN(tier, 2, 6), tierN(tier, 1, 3), "bin={BIN},cycles=2", time.Duration(tierN(tier, 20, 150))*time.Minute)...)
			// controller engine (E2): membership walks with rebuild verification (incl. a failing last step and retries);
			// at every settled point all replicas listed RW were told RW and report the same count
			js = append(js, jobs("ctlsim", 3, tierN(tier, 40, 800), "", time.Duration(tierN(tier, 10, 60))*time.Minute)...)
			// the same walks over the real backend (net mode): the REST requests of the promotion steps can lose their
			// connection before they are answered
			return append(js, jobs("ctlsim", 3, tierN(tier, 20, 300), "net=1", time.Duration(tierN(tier, 15, 90))*time.Minute)...)
		},
		CrashSig: rengCrash("C10"),
		RaceJobs: func() []Job { return jobs("reng", 2, 12, "", 60*time.Minute) },
	},
	"C12": {
		Level: "exploration",
		Rule: "sequences of 15-45 management requests: valid ones (snapshot, cleaner/raw removal, mark-removed, revert, resize, checkpoint) mixed with requests that must change nothing (remove/prepare-remove/revert/replace of head, latest, base, unknown, prefix-less and metadata-file names; duplicate snapshot names; shrink; chain surgery in WO mode; everything on a closed replica) and orphan clean-up after reverts; after every request chain == model chain, every member has data+metadata file, attributes and full read unchanged; close+open reproduces chain, attributes, size, checkpoint and data; " +
			"non-trivial = >=1 unaligned write, >=1 chain mutation, >=1 reopen; distinct = hash of the op-kind sequence; thorough tier additionally runs the real-process snapshot life-cycle scenario (see C11) with a full restart of all replicas: retained chain members keep their order and attributes",
		Assumptions: rengAssume,
		Floor:       map[string]int64{"bad_requests": 100, "chain_checks": 300},
		Jobs: func(tier string) []Job {
			js := jobs("reng", 16, tierN(tier, 8, 200), "", time.Duration(tierN(tier, 10, 90))*time.Minute)
			if tier == "thorough" {
				js = append(js, snapLife(tier, 0, 2)...)
			} else {
				// the short form of the scenario (no wait for the cleaners): a replica is rebuilt from peers that hold
				// snapshots marked as removed
				js = append(js, jobs("cluster", 1, 1, "bin={BIN},scen=snaplife,merges=0", 20*time.Minute)...)
			}
			// rebuilds of a replacement replica (empty directory) interrupted right after the first metadata file
			// arrived: the directory left behind must open again and the next attempt must succeed
			js = append(js, jobs("cluster", tierN(tier, 1, 2), tierN(tier, 1, 2), "bin={BIN},cycles=1,interrupt=8", time.Duration(tierN(tier, 20, 60))*time.Minute)...)
			return js
		},
		CrashSig: rengCrash("C12"),
	},
	"C16": {
		Level: "exploration",
		Rule: "histories with 1-5 growths (byte counts and human-readable sizes, 1-24 blocks) interleaved with I/O of all shapes, snapshots, removals, reverts and reopen; shrink, garbage, empty and zero sizes must be refused without change; after growth: old range unchanged, new range zero and writable, every snapshot image = old image + zeros, size survives reopen; " +
			"non-trivial as C01; distinct = hash of the op-kind sequence",
		Assumptions: rengAssume,
		Floor:       map[string]int64{"resizes": 30, "resize_refusals_probed": 20, "controller_resizes": 20, "rest_resize_cells": 80, "rest_resizes_accepted": 6},
		Jobs: func(tier string) []Job {
			js := jobs("reng", 12, tierN(tier, 8, 130), "", time.Duration(tierN(tier, 10, 80))*time.Minute)
			// the resize action of the replica's REST API, as the controller uses it: every state x valid and invalid sizes
			js = append(js, jobs("restfuzz", 1, tierN(tier, 2, 25), "", time.Duration(tierN(tier, 10, 60))*time.Minute)...)
			// controller side of Resize on the controller engine
			return append(js, jobs("ctlsim", 4, tierN(tier, 50, 1250), "", time.Duration(tierN(tier, 10, 60))*time.Minute)...)
		},
		CrashSig: rengCrash("C16"),
	},
	"C17": {
		Level: "exploration",
		Rule: "random walks of 20-40 steps over closed / open-without-mode / RW / WO with I/O, chain surgery and counter updates attempted in every state: closed => all I/O and management calls fail and the directory hash is unchanged; open without mode => a write is reported failed and not counted; WO => writes apply, removals/replace/counter updates refused without side effects; RW => everything applies (model-checked); " +
			"non-trivial = walk visits >=3 different states incl. a reopen; distinct = hash of the op-kind sequence",
		Assumptions: append([]string{"the bytes of a write refused in the open-without-mode state do reach the head file (mode check after the data write); the verdict is on the reported outcome and the counter, as DESIGN.md C17 explains"}, rengAssume...),
		Floor:       map[string]int64{"gate_probes_closed": 50, "gate_probes_WO": 50, "gate_probes_INIT": 20, "action_matrix_cells": 102, "attach_attempts": 4},
		Jobs: func(tier string) []Job {
			js := jobs("reng", 12, tierN(tier, 10, 200), "", time.Duration(tierN(tier, 10, 80))*time.Minute)
			// REST action table (6 states x 17 actions) and the attach rule with the real remote.Factory
			return append(js, jobs("restfuzz", 4, tierN(tier, 1, 5), "", time.Duration(tierN(tier, 10, 60))*time.Minute)...)
		},
		CrashSig: rengCrash("C17"),
	},
	"C02": withDiskFault(0, 3, ctlPlan("C02", 100, 2500, map[string]int64{"io_write": 300, "replica_images_compared": 100},
		"controller histories for RF 1..5 (RF = worker index mod 5 + 1): bring-up through register/start/add/file-sync/verify, then 10-40 I/O operations each with a fault assignment (ok, error, applied-then-error, timeout, error with monitor event before/after) per attached replica - enumerated round-robin for <=3 attached replicas, sampled with forced corners above - interleaved with replacement replicas, monitor failures, resizes and range probes; "+
			"per operation: acknowledged => strictly more than half of the attached replicas applied it, failed replicas detached when the call returns; at quiescent points every attached replica holds every acknowledged write; every tenth case instead runs 2-8 concurrent client goroutines (block reads/writes with unique values, replicas with seeded delays, one replica failing half way) and checks the recorded history with porcupine against a register-per-block model (failed writes stay open); non-trivial = case contains a fault assignment; distinct = hash of (RF, membership state, fault vector) sequence")),
	"C04": withDiskFault(0, 3, withCluster(ctlPlan("C04", 100, 2500, map[string]int64{"io_read": 500, "read_sweeps": 100},
		"C02's histories with reads issued at every position of the round-robin cursor after each change (|readers| consecutive reads), read faults on subsets of the RW replicas, WO replicas holding a poison pattern for everything they were not sent; "+
			"a read may only reach RW replicas, a successful read equals the model of acknowledged writes, a failed reader is detached and another RW replica serves; non-trivial = case contains a fault assignment; distinct as C02"),
		2, 4, 2, "after every rebuild of a real replica process (kill / stop / stall, interrupted rebuilds, failing file transfers) the whole volume is read once per reader position while the writers are paused: what the freshly promoted replica serves must be every acknowledged write")),
	"C05": withDiskFault(2, 6, withCluster(ctlPlan("C05", 25, 1250, map[string]int64{"io_write": 200, "settled_points": 300, "rebuild_cycles": 1},
		"C02's histories; per operation with failing set F (error, lost reply, timeout, monitor event before/after the I/O, process death): if the survivors form a majority and an RW replica is among them the operation is acknowledged, every failed replica is ERR-or-absent when the call returns and absent once its monitor event was consumed, a detached replica receives no further call; non-trivial = case contains a fault assignment; distinct as C02"),
		2, 8, 3, "SIGKILL / SIGSTOP of one of three real replica processes under write load must not make any write fail, the replica must leave the controller's list, and it comes back only through a rebuild (log evidence of reload-and-verify)")),
	"C03": ctlPlan("C03", 13, 375, map[string]int64{"settled_points": 300, "mutations_attempted_readonly": 30},
		"membership walks for RF 1..5: 4-14 changes drawn from add, file-sync+verify, explicit removal, monitor failure (with and without process death), operator set-mode ERR/RW, I/O with fault assignments, duplicate/unknown-address requests, snapshots with a failing replica, late register/start requests, restart and re-add; after every change the state is settled (every triggered monitor event acted upon, state stable) and: ReadOnly == (#RW < RF/2+1), a probe write/flush/unmap is refused without reaching any replica iff read-only, and accepted when a quorum is RW; "+
			"non-trivial = walk visits >2 distinct (RW,WO,ERR,RO,checkpoint) states or contains faults; distinct = hash of the step/state sequence"),
	"C18": ctlPlan("C18", 100, 2500, map[string]int64{"settled_points": 500},
		"membership walks of 10-40 requests (see C03) for RF 1..5; at every settled point: no address twice, #replicas <= RF, #WO <= 1, RWReplicaCount == #RW entries, replica list == replicator backend map (addresses and modes), writer list == non-ERR entries, reader list == RW entries, writes reach exactly the writers, reads only readers, and a detached replica receives no call after its Close; "+
			"non-trivial and distinct as C03; the number of distinct membership states visited is reported"),
	"C13": withCluster(ctlPlan("C13", 19, 625, map[string]int64{"snapshots_under_concurrent_writes": 50, "checkpoint_recordings": 50, "checkpoint_withdrawals": 20},
		"histories for RF 1..5 that bring all RF replicas to RW, then rounds of 2-4 concurrent writer goroutines racing with 1-3 snapshot requests (fakes add seeded 0-2 ms delays per call), followed by a failure phase (snapshot failing on one replica, set-checkpoint failing on one replica, explicit removal, process death) and re-additions; "+
			"per snapshot the set of writes applied before its marker must be identical on all replicas, snapshots are refused unless all RF are RW, and at every settled point a recorded checkpoint implies all RF RW, present in every chain, persisted by every replica, and (when newly recorded) equal to every replica's latest snapshot; it is withdrawn once a replica left; non-trivial/distinct as C03"),
		2, 8, 3, "a controller snapshot taken under a running write stream must have byte-identical images (revert-on-copy) on all replica directories, and every replica's persisted checkpoint must equal the controller's"),
	"C09": withCluster(ctlPlan("C09", 32, 1250, map[string]int64{"registrations": 300, "elections_checked": 50},
		"bootstrap sequences for RF 1..5: registration requests in every order for <=4 replicas (enumerated across cases) and sampled above, with repetitions, revision vectors with ties, replicas registering as rebuilding or dirty, replicas that die after registering, failing start signals, Start attempts by non-elected replicas, single- and multi-address Start; ground truth = the harness's knowledge of each replica's revision, state and liveness; "+
			"no start signal before a majority registered; a freshly elected target has the highest revision among registered, reachable, non-rebuilding replicas; never a rebuilding one; only the elected one can start; lower-revision replicas named in Start are not RW and never serve reads; non-trivial/distinct as C03"),
		2, 8, 3, "all replica processes of a volume with acknowledged writes are killed and restarted in seeded order with seeded delays; once a quorum is RW again every acknowledged write must read back at every reader position"),
	"C08": {
		Level: "fault_enumeration",
		Rule: "pre-states built by generated histories of 0-20 operations (chain length 1-6, user/auto/removed snapshots, orphans after reverts); for each operation (aligned and read-modify-write writes, user/auto snapshot, removal via prepare+fold+remove, mark-removed, revert, resize, set-checkpoint, set-rebuilding, clone-info, close, open) the file-system calls of the victim's main thread between two marker calls are recorded with strace; then (1) the process is killed before every state-changing call, (2) the durability discipline is linted on the trace, (3) every call that can fail is made to fail once with ENOSPC (thorough: also EIO); a checker process reopens the directory with the real code (with and without preload) and classifies it against the before/after models incl. every retained user snapshot; " +
			"non-trivial = an (operation, trace length, chain length) combination; distinct = number of different such combinations; exhaustive over the syscall boundaries of the sampled (pre-state, operation) pairs",
		Assumptions: []string{
			"process death, not power loss: the page cache survives the process, the durability clause is checked by linting the fsync discipline in the syscall trace",
			"crash points are syscall boundaries of the operation's own (locked) thread; the asynchronous hole puncher is idle during the operation",
			"on a reported failure either consistent state (before or after) is accepted; success requires the complete after-state",
		},
		Floor: map[string]int64{"crash_points": 100, "failing_call_injections": 100, "reference_traces": 10},
		Jobs: func(tier string) []Job {
			return jobs("crashpt", 16, tierN(tier, 1, 5), "tier="+tier, time.Duration(tierN(tier, 15, 120))*time.Minute)
		},
	},
	"C14": {
		Level: "exploration",
		Rule: "every route of both routers (enumerated from the mux router at run time) x methods {GET,POST,PUT,DELETE,PATCH,HEAD} x bodies {valid for the route, empty, non-JSON, truncated at every third byte, wrong JSON type per field, array/null, 1 MiB} x ids {valid, wrong, unknown, not base64, padding stripped, traversal, NUL, long, numeric, unicode} x hostile field values, in controller states {empty, registered, one RW, all RW with checkpoint, RW+WO, read-only; RF 1..5} and replica states {initial, closed, open, dirty, rebuilding, unreadable metadata}; each (state, request) pair runs on a freshly established state, plus drifting random sequences of 50 requests; quick = a seeded sample of the matrix, thorough = the whole matrix split over 16 worker processes; " +
			"every request is journalled before execution; panic around ServeHTTP, process death, a request or the following liveness request not returning within 20 s, or the mutex not free within 2000 polls are violations; distinct = (method, route, request class, state, status class)",
		Assumptions: []string{
			"handlers that contact other processes see loopback addresses that refuse connections at once, or the HTTP stubs of the scripted replicas",
			"/debug/pprof/ and /metrics are net/http/pprof and promhttp code: only their index pages are requested (the profile endpoint blocks for its sampling time by design)",
		},
		Floor: map[string]int64{"requests": 2000, "route_state_combinations": 100, "status_agreement_cells": 100, "status_agreement_cells_engine_refused": 40},
		Jobs: func(tier string) []Job {
			return jobs("restfuzz", 16, tierN(tier, 60, 0), "workers=16,tier="+tier, time.Duration(tierN(tier, 15, 120))*time.Minute)
		},
		CrashSig: func(last, log string) (string, string) {
			c := jivaCrash(log)
			if c == "" {
				return "", ""
			}
			return "process-died:" + journalOp(last) + ":" + crashClass(c), "the process serving the management API died (" + c + "); last journalled request: " + last
		},
		RaceJobs: func() []Job { return jobs("restfuzz", 2, 20, "workers=16,tier=quick", 60*time.Minute) },
	},
	"C15": {
		Level: "exploration",
		Rule: "four scenario kinds, cycled per worker: (a) codec - 20-60 frames with types 0..9, seq/offset/size at integer extremes, payloads 0..1 MiB incl. buffer-size boundaries, through real Wire.Write -> independent decoder (1-8 concurrent writers on one Wire) or independent encoder -> real Wire.Read, plus malformed streams; (b) matching - 1..256 goroutines on one real rpc.Client issue reads/writes/syncs/pings/unmaps with unique (offset,size), a scripted peer answers inside a bounded reorder window, with duplicates, unknown sequence numbers and per-request error replies, reply content = PRF of the request; (c) failure - as (b), the peer stalls for ever, answers one request 1.9 s late (deadline 1 s), closes, resets or sends garbage at a seeded request; (d) end-to-end - real rpc.Server over an in-memory store, 2-12 concurrent callers, history checked with porcupine against a register-per-block model; " +
			"distinct = (scenario kind, concurrency, window, fault, reorder-distance class)",
		Assumptions: []string{
			"the scripted peer uses the harness's own implementation of the frame format (little endian header of 30 bytes)",
			"read/write deadlines are set to 1 s through the production knobs types.RPCReadTimeout/RPCWriteTimeout + rpc.SetRPCTimeout(); 'promptly' is bounded by 30 s per call and 60 s per scenario (>= 20x deadline + the client's 2 s grace), decided on which calls returned errors, not on exact times",
		},
		Floor: map[string]int64{"rpc_calls": 10000, "codec_frames": 100, "failures_detected": 4, "e2e_operations": 1000},
		Jobs: func(tier string) []Job {
			js := jobs("rpcsim", 16, tierN(tier, 8, 125), "tier="+tier, time.Duration(tierN(tier, 15, 120))*time.Minute)
			// "the failure is reported so that the replica is detached": the reporting path (rpc client -> close channel ->
			// backend/remote's ping monitor -> controller) on the controller engine in net mode, incl. connections that
			// fail while a ping is outstanding
			return append(js, jobs("ctlsim", 3, tierN(tier, 8, 120), "net=1", time.Duration(tierN(tier, 15, 90))*time.Minute)...)
		},
		CrashSig: func(last, log string) (string, string) {
			c := jivaCrash(log)
			if c == "" {
				return "", ""
			}
			return "crash:" + crashClass(c), "the process running the rpc client/server died (" + c + ")"
		},
		RaceJobs: func() []Job { return jobs("rpcsim", 2, 12, "", 60*time.Minute) },
	},
	"C07": clusterPlan("C07", 12, 1, 16, 9, map[string]int64{"rebuild_cycles": 4, "promotions_checked": 4, "stored_images_compared": 8, "writes_acknowledged": 1000},
		"clusters of real processes (in-process controller with the real remote factory and REST server; jiva replica + jiva sync-agent processes on their own loopback addresses; RF 2-3, volumes of 4-12 MiB) run kill/stop -> detach -> restart -> rebuild cycles under 1-3 foreground writers at three intensities, with pre-failure histories incl. user snapshots; a third of the rebuilds are interrupted (SIGKILL of the rebuilding replica at the Addreplica / syncFiles / reloadAndVerify log markers, with or without its sync agent) and some lose their source; "+
			"when the replica is first listed RW the writers are paused and (a) the whole volume is read once per reader position through the controller (so the promoted replica serves every chunk through its live block map), (b) extent-exact copies of the promoted and the source directory yield live image and every user snapshot (revert-on-copy): pairwise byte-identical and equal to the model, revision counters and chains equal; the sampled mode timeline must never show two WO replicas nor a restarted replica listed RW before WO; non-trivial = a cycle with acknowledged foreground writes; distinct = configuration + event count"),
	"C19": clusterPlan("C19", 6, 1, 18, 4, map[string]int64{"clones_completed": 2, "clone_images_compared": 2, "clone_status_samples": 50, "failed_clones_observed": 1},
		"two real volumes per scenario: a source (RF 1-2) with 2-5 user snapshots and further writes after the cloned snapshot S (S at every chain position across cases), and a new volume whose only replica is started with --type clone; variants (cycled over the cases): none, writes on the source during the copy, SIGKILL of the source replica(s) during the file sync, SIGKILL of the clone during the copy (each followed by a supervisor restart), and a clone of a snapshot that does not exist at the source (must end in an error status and never be served); "+
			"the clone replica's REST state is sampled every 15 ms (mode RW implies status completed; the new controller holds its lock while polling so the replica side is where intermediate states are visible); at completion the full read through the new controller must equal the model image of S and revert-on-copy of the source directory, the clone's revision counter must equal the one recorded for S, and the clone must accept writes; distinct = configuration + event count"),
}

// snapLife: the snapshot life-cycle scenario on real processes (cluster engine): q/t workers in quick/thorough.
// quick: one cleaner merge per replica awaited, no full restart; thorough: two merges and a full restart, 2 cases.
func snapLife(tier string, q, t int) []Job {
	if tier == "thorough" {
		return jobs("cluster", t, 2, "bin={BIN},scen=snaplife,merges=2,restart=1", 150*time.Minute)
	}
	return jobs("cluster", q, 1, "bin={BIN},scen=snaplife,merges=1", 20*time.Minute)
}

// clusterPlan: q/t = workers in quick/thorough, cases per worker.
func clusterPlan(id string, qw, qc, tw, tc int, floor map[string]int64, rule string) *Plan {
	return &Plan{
		Level: "exploration", Rule: rule,
		Assumptions: []string{
			"schedules come from OS timing, seeded kill times, log-marker-triggered kills and foreground write intensity, not from enumeration",
			"bounded waits (bring-up 120 s, rebuild/clone 240 s) that expire make a case inconclusive, never a violation",
			"images are read from extent-exact copies of the live replica directories taken while the writers are paused",
		},
		Floor: floor,
		Jobs: func(tier string) []Job {
			w, c := qw, qc
			if tier == "thorough" {
				w, c = tw, tc
			}
			cyc := "2"
			if tier == "thorough" {
				cyc = "3"
			}
			js := jobs("cluster", w, c, "bin={BIN},cycles="+cyc, time.Duration(tierN(tier, 20, 150))*time.Minute)
			if id == "C19" {
				// the controller's side on the controller engine: scripted clone-status sequences polled during Start
				js = append(js, jobs("ctlsim", 6, tierN(tier, 2, 16), "", time.Duration(tierN(tier, 20, 60))*time.Minute)...)
			}
			return js
		},
		CrashSig: func(last, log string) (string, string) {
			c := jivaCrash(log)
			if c == "" {
				return "", ""
			}
			return "controller-crash:" + crashClass(c), "the in-process controller died (" + c + ")"
		},
	}
}

func crashClass(c string) string {
	for _, k := range []string{"Unlock of unlocked", "concurrent map", "all goroutines are asleep", "index out of range", "nil pointer", "level=fatal"} {
		if strings.Contains(c, k) {
			return strings.ReplaceAll(k, " ", "-")
		}
	}
	return "other"
}

// withDiskFault adds the failing-disk scenario on real processes (cluster engine): strace attached to one of three
// running replica processes makes its pwrite64 / fsync / pread64 calls fail (EIO, ENOSPC, every third call) under load.
func withDiskFault(qw, tw int, p *Plan) *Plan {
	inner := p.Jobs
	p.Rule += "; failing-disk scenario on real processes (cluster engine): strace attaches to one of three running replica processes and makes its pwrite64 / fsync+fdatasync / pread64 calls fail with EIO or ENOSPC (all calls or every third) while 1-3 writers run and the whole volume is read at every reader position: no write and no read may fail or return wrong data, a replica whose write calls failed must be detached, the directory it leaves must reopen, and after the pod is recycled it is rebuilt and compared as in C07"
	p.Jobs = func(tier string) []Job {
		js := inner(tier)
		w, c, cyc := qw, 1, "1"
		if tier == "thorough" {
			w, c, cyc = tw, 2, "2"
		}
		return append(js, jobs("cluster", w, c, "bin={BIN},scen=diskfault,cycles="+cyc, time.Duration(tierN(tier, 20, 150))*time.Minute)...)
	}
	return p
}

// withCluster adds real-process cluster scenarios (engine E5) to a controller-engine plan.
func withCluster(p *Plan, qw, tw, tc int, note string) *Plan {
	inner := p.Jobs
	if strings.Contains(p.Rule, "concurrent writer goroutines") {
		p.RaceJobs = func() []Job { return jobs("ctlsim", 2, 60, "", 60*time.Minute) }
	}
	p.Rule += "; cross-check on real processes (cluster engine): " + note
	p.Jobs = func(tier string) []Job {
		js := inner(tier)
		if len(js) >= 16 {
			js = append(js[:16-qw:16-qw], js[16:]...) // room for the cluster workers among the 16 that run at a time
		}
		w, c, cyc := qw, 1, "1"
		if tier == "thorough" {
			w, c, cyc = tw, tc, "2"
		}
		return append(js, jobs("cluster", w, c, "bin={BIN},cycles="+cyc, time.Duration(tierN(tier, 20, 150))*time.Minute)...)
	}
	return p
}

func ctlPlan(id string, q, t int, floor map[string]int64, rule string) *Plan {
	return &Plan{
		Level: "exploration", Rule: rule,
		Assumptions: []string{
			"replicas are scripted types.Backend fakes that honour the backend contract (never (n<len, nil)) and reproduce remote.Remote's monitor-channel behaviour (one event per attachment)",
			"what the controller asks replicas over REST is answered by an HTTP stub on each fake's own loopback address",
			"file synchronisation of a rebuild is performed by the harness (copy of everything the WO replica did not receive itself)",
			"four extra workers (net mode) put the real backend factory between controller and scripted replicas: backend/remote's REST calls reach a scripted control port, the data path runs through the real rpc.Client and rpc.Server (deadlines 1 s), monitor events come from the real ping monitor; faults are error replies, late replies and dropped connections",
		},
		Floor: floor,
		Jobs: func(tier string) []Job {
			js := jobs("ctlsim", 16, tierN(tier, q, t), "", time.Duration(tierN(tier, 10, 60))*time.Minute)
			// the same scenarios with the real backend factory (backend/remote, rpc client and server, ping monitor)
			// between the controller and the scripted replicas; slower per case (real deadlines), hence fewer cases
			nq, nt := q/8+3, t/16+10
			if id == "C03" {
				nq, nt = 4, 40
			}
			return append(js, jobs("ctlsim", 4, tierN(tier, nq, nt), "net=1", time.Duration(tierN(tier, 15, 90))*time.Minute)...)
		},
		// thorough tier: two extra workers from a -race build (auxiliary sensor: reports are listed, not judged)
		RaceJobs: func() []Job { return jobs("ctlsim", 2, 40, "", 60*time.Minute) },
		CrashSig: func(last, log string) (string, string) {
			c := jivaCrash(log)
			if c == "" {
				return "", ""
			}
			return "crash:" + journalOp(last), "controller died during a history (" + c + "); last journalled step: " + last
		},
	}
}
