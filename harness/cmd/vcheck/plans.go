package main

import (
	"encoding/json"
	"strings"
	"time"
)

func tierN(tier string, q, t int) int {
	if tier == "thorough" {
		return t
	}
	return q
}

// journalOp extracts the operation kind of the last journal line.
func journalOp(last string) string {
	var m map[string]interface{}
	if json.Unmarshal([]byte(last), &m) == nil {
		if k, ok := m["k"].(string); ok {
			return k
		}
		if _, ok := m["case"]; ok {
			return "case-start"
		}
	}
	return "unknown"
}

// jivaCrash tells whether a worker's log shows a death inside jiva code
// (panic / Go fatal error / logrus.Fatal) as opposed to a harness problem.
func jivaCrash(log string) string {
	switch {
	case strings.Contains(log, "fatal error:"):
		i := strings.Index(log, "fatal error:")
		return firstLine(log[i:])
	case strings.Contains(log, "panic:"):
		i := strings.Index(log, "panic:")
		return firstLine(log[i:])
	case strings.Contains(log, "level=fatal"):
		i := strings.Index(log, "level=fatal")
		return firstLine(log[i:])
	}
	return ""
}

func firstLine(s string) string {
	if i := strings.IndexByte(s, '\n'); i >= 0 {
		s = s[:i]
	}
	if len(s) > 200 {
		s = s[:200]
	}
	return s
}

func rengCrash(prop string) func(string, string) (string, string) {
	return func(last, log string) (string, string) {
		c := jivaCrash(log)
		if c == "" {
			return "", ""
		}
		return "crash:" + journalOp(last), "replica engine died during a valid history (" + c + "); last journalled op: " + last
	}
}

var rengAssume = []string{
	"sequential histories per replica (the data path is serialised by the controller lock and the one-message-at-a-time rpc server)",
	"ext4 with 4 KiB blocks, O_DIRECT, FIEMAP and hole punching as in production",
	"snapshot images are read by revert on an extent-exact copy of the directory",
}

var plans = map[string]*Plan{
	"C01": {
		Level: "exploration",
		Rule: "generated histories (15-60 ops: writes/reads of sector, in-block, spanning, block, multi-block, first/last and ownership-straddling shape; user/auto snapshots; cleaner and raw removals; reverts; reopen +-preload; reload; resize) on volumes of 16-512 blocks with reclamation on/off; " +
			"a case is non-trivial if it has >=1 unaligned write, >=1 chain mutation and >=1 reopen/reload; distinct = hash of the op-kind/alignment-class sequence",
		Assumptions: rengAssume,
		Floor:       map[string]int64{"writes": 200, "quiescent_checks": 50},
		Jobs: func(tier string) []Job {
			return jobs("reng", 16, tierN(tier, 6, 120), "", time.Duration(tierN(tier, 10, 60))*time.Minute)
		},
		CrashSig: rengCrash("C01"),
	},
	"C06": {
		Level: "exploration",
		Rule: "C01's history generator with reclamation on in 80% of cases and extra weight on multi-block writes that straddle blocks owned by different chain files; every quiescent point compares revert-on-copy of every retained user-created snapshot with its image at creation, in-place reverts compare the live volume with the image; " +
			"non-trivial = >=1 unaligned write, >=1 chain mutation and >=1 reopen/reload; distinct = hash of the op-kind/alignment-class sequence",
		Assumptions: rengAssume,
		Floor:       map[string]int64{"snapshot_images_compared": 100, "writes": 200},
		Jobs: func(tier string) []Job {
			return jobs("reng", 16, tierN(tier, 6, 150), "", time.Duration(tierN(tier, 10, 80))*time.Minute)
		},
		CrashSig: rengCrash("C06"),
	},
	"C11": {
		Level: "exploration",
		Rule: "histories biased to long chains with user/auto/marked-removed members and a checkpoint at varying positions; every answer of the real cleaner filter (GetDeleteCandidateChain) is checked name by name against the predicate of the property; deletions go through the cleaner route (candidate -> PrepareRemoveDisk -> fold -> RemoveDiffDisk) and the user route (mark removed); " +
			"full live read and revert-on-copy of every retained user snapshot are compared before/after; non-trivial as C01; distinct = hash of the op-kind sequence",
		Assumptions: rengAssume,
		Floor:       map[string]int64{"candidate_queries": 50, "removals": 10, "snapshot_images_compared": 50},
		Jobs: func(tier string) []Job {
			return jobs("reng", 16, tierN(tier, 6, 150), "", time.Duration(tierN(tier, 10, 80))*time.Minute)
		},
		CrashSig: rengCrash("C11"),
	},
	"C10": {
		Level: "exploration",
		Rule: "histories of writes (all shapes), RW<->WO mode flips, explicit counter sets (accepted only in RW), reopen +-preload, snapshots and runs of 2-16 concurrent writers on disjoint blocks; after every step the in-memory and the persisted counter are compared with a model (+1 per applied write in RW, +0 in WO), concurrent samples must lie between completed and issued writes; " +
			"non-trivial = >=1 unaligned write, a mode flip or set, and a reopen; distinct = hash of the op-kind sequence",
		Assumptions: rengAssume,
		Floor:       map[string]int64{"revision_samples": 300, "concurrent_runs": 5},
		Jobs: func(tier string) []Job {
			return jobs("reng", 16, tierN(tier, 6, 100), "", time.Duration(tierN(tier, 10, 80))*time.Minute)
		},
		CrashSig: rengCrash("C10"),
	},
	"C12": {
		Level: "exploration",
		Rule: "sequences of 15-45 management requests: valid ones (snapshot, cleaner/raw removal, mark-removed, revert, resize, checkpoint) mixed with requests that must change nothing (remove/prepare-remove/revert/replace of head, latest, base, unknown, prefix-less and metadata-file names; duplicate snapshot names; shrink; chain surgery in WO mode; everything on a closed replica) and orphan clean-up after reverts; after every request chain == model chain, every member has data+metadata file, attributes and full read unchanged; close+open reproduces chain, attributes, size, checkpoint and data; " +
			"non-trivial = >=1 unaligned write, >=1 chain mutation, >=1 reopen; distinct = hash of the op-kind sequence",
		Assumptions: rengAssume,
		Floor:       map[string]int64{"bad_requests": 100, "chain_checks": 300},
		Jobs: func(tier string) []Job {
			return jobs("reng", 16, tierN(tier, 8, 200), "", time.Duration(tierN(tier, 10, 90))*time.Minute)
		},
		CrashSig: rengCrash("C12"),
	},
	"C16": {
		Level: "exploration",
		Rule: "histories with 1-5 growths (byte counts and human-readable sizes, 1-24 blocks) interleaved with I/O of all shapes, snapshots, removals, reverts and reopen; shrink, garbage, empty and zero sizes must be refused without change; after growth: old range unchanged, new range zero and writable, every snapshot image = old image + zeros, size survives reopen; " +
			"non-trivial as C01; distinct = hash of the op-kind sequence",
		Assumptions: rengAssume,
		Floor:       map[string]int64{"resizes": 30, "resize_refusals_probed": 20},
		Jobs: func(tier string) []Job {
			return jobs("reng", 16, tierN(tier, 6, 100), "", time.Duration(tierN(tier, 10, 80))*time.Minute)
		},
		CrashSig: rengCrash("C16"),
	},
	"C17": {
		Level: "exploration",
		Rule: "random walks of 20-40 steps over closed / open-without-mode / RW / WO with I/O, chain surgery and counter updates attempted in every state: closed => all I/O and management calls fail and the directory hash is unchanged; open without mode => a write is reported failed and not counted; WO => writes apply, removals/replace/counter updates refused without side effects; RW => everything applies (model-checked); " +
			"non-trivial = walk visits >=3 different states incl. a reopen; distinct = hash of the op-kind sequence",
		Assumptions: append([]string{"the bytes of a write refused in the open-without-mode state do reach the head file (mode check after the data write); the verdict is on the reported outcome and the counter, as DESIGN.md C17 explains"}, rengAssume...),
		Floor:       map[string]int64{"gate_probes_closed": 50, "gate_probes_WO": 50, "gate_probes_INIT": 20},
		Jobs: func(tier string) []Job {
			return jobs("reng", 16, tierN(tier, 8, 150), "", time.Duration(tierN(tier, 10, 80))*time.Minute)
		},
		CrashSig: rengCrash("C17"),
	},
}
