package main

import "fmt"

func runOtherWorker(engine string, wa workerArgs) error {
	return fmt.Errorf("unknown engine %q", engine)
}
