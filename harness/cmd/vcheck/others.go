package main

import (
	"fmt"

	"verif/harness/internal/cluster"
	"verif/harness/internal/crashpt"
	"verif/harness/internal/ctlsim"
	"verif/harness/internal/restfuzz"
	"verif/harness/internal/rpcsim"
)

func runOtherWorker(engine string, wa workerArgs) error {
	switch engine {
	case "crashpt":
		return crashpt.RunWorker(wa.prop, wa.seed, wa.worker, wa.cases, wa.scratch, wa.out, wa.extra)
	case "restfuzz":
		return restfuzz.RunWorker(wa.prop, wa.seed, wa.worker, wa.cases, wa.scratch, wa.out, wa.extra)
	case "rpcsim":
		return rpcsim.RunWorker(wa.prop, wa.seed, wa.worker, wa.cases, wa.out, wa.extra["tier"] == "thorough")
	case "cluster":
		return cluster.RunWorker(wa.prop, wa.seed, wa.worker, wa.cases, wa.scratch, wa.out, wa.extra)
	case "ctlsim":
		ctlsim.NetMode = wa.extra["net"] == "1"
		return ctlsim.RunWorker(wa.prop, wa.seed, wa.worker, wa.cases, wa.out)
	}
	return fmt.Errorf("unknown engine %q", engine)
}
