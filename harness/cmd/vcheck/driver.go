package main

import (
	"bufio"
	"encoding/json"
	"fmt"
	"os"
	"os/exec"
	"path/filepath"
	"sort"
	"strings"
	"sync"
	"syscall"
	"time"

	"verif/harness/internal/vk"
)

// verifRoot is where DESIGN.md, known_findings.json, evidence/ and harness/ live: /verif, or the directory the check
// script was started from when that is a snapshot of it (VERIF_ROOT, set by ./check)
var verifRoot = func() string {
	if r := os.Getenv("VERIF_ROOT"); r != "" {
		return r
	}
	return "/verif"
}()

// evidenceRoot is /verif/evidence unless a dev-time run redirects it.
func evidenceRoot() string {
	if v := os.Getenv("VERIF_EVIDENCE_ROOT"); v != "" {
		return v
	}
	return filepath.Join(verifRoot, "evidence")
}

// Job is one worker process.
type Job struct {
	Engine  string
	Cases   int
	Extra   string
	Timeout time.Duration
	Race    bool // run under the Go race detector (auxiliary sensor, thorough tier)
	Debug   bool // run from a harness built with jiva's own `debug` build tag as well (its delay failpoints are live)
}

// Plan describes the check of one property.
type Plan struct {
	Level       string
	Rule        string
	Assumptions []string
	// Floor: minimal number of observed events (by counter) for a conclusive run
	Floor map[string]int64
	Jobs  func(tier string) []Job
	// CrashIsViolation: a worker that dies in jiva code refutes the property
	CrashSig func(lastOp string, log string) (string, string)
	// RaceJobs: workers additionally run from a -race build in the thorough tier; their race reports are
	// counted and de-duplicated in the evidence as an auxiliary observation, never as a verdict
	RaceJobs func() []Job
	// DebugJobs: workers that run from a build with jiva's `debug` tag in addition (both tiers)
	DebugJobs func(tier string) []Job
}

func jobs(engine string, workers, cases int, extra string, timeout time.Duration) []Job {
	var out []Job
	for i := 0; i < workers; i++ {
		out = append(out, Job{Engine: engine, Cases: cases, Extra: extra, Timeout: timeout})
	}
	return out
}

func runCheck(id, tier string, rest []string) int {
	start := time.Now()
	plan, ok := plans[id]
	if !ok {
		fmt.Fprintf(os.Stderr, "no check registered for %s\n", id)
		return 2
	}
	if tier != "quick" && tier != "thorough" {
		fmt.Fprintln(os.Stderr, "tier must be quick or thorough")
		return 2
	}
	seed := vk.Seed()
	scratchBase := os.Getenv("TMPDIR")
	if scratchBase == "" {
		scratchBase = "/tmp"
	}
	// leftovers of killed runs of the same property
	if old, _ := filepath.Glob(filepath.Join(scratchBase, "jvv-"+id+"-*")); len(old) > 0 {
		for _, o := range old {
			if !pidAlive(o) {
				os.RemoveAll(o)
			}
		}
	}
	scratch := filepath.Join(scratchBase, fmt.Sprintf("jvv-%s-%d", id, os.Getpid()))
	os.MkdirAll(scratch, 0700)
	defer os.RemoveAll(scratch)

	js := plan.Jobs(tier)
	raceBin := ""
	if plan.RaceJobs != nil && (tier == "thorough" || os.Getenv("VERIF_RACE") == "1") {
		if rb, err := buildRace(scratch); err == nil {
			raceBin = rb
			for _, j := range plan.RaceJobs() {
				j.Race = true
				js = append(js, j)
			}
		} else {
			fmt.Fprintln(os.Stderr, "note: race build unavailable:", err)
		}
	}
	debugBin := ""
	if plan.DebugJobs != nil {
		db, err := buildTagged(scratch, "vcheck-debug", "verif debug", false)
		if err != nil {
			fmt.Fprintln(os.Stderr, "BUILD-FAILED: the harness does not build with jiva's debug tag:", err)
			return 3
		}
		debugBin = db
		for _, j := range plan.DebugJobs(tier) {
			j.Debug = true
			js = append(js, j)
		}
	}
	total := vk.NewResult("driver")
	needBin := false
	for _, j := range js {
		if strings.Contains(j.Extra, "{BIN}") {
			needBin = true
		}
	}
	if needBin {
		bin, err := buildJiva(scratch)
		if err != nil {
			fmt.Fprintln(os.Stderr, "BUILD-FAILED: the jiva binary does not build with the verif tag:", err)
			return 3
		}
		for i := range js {
			js[i].Extra = strings.ReplaceAll(js[i].Extra, "{BIN}", bin)
		}
	}
	var mu sync.Mutex
	sem := make(chan struct{}, 16)
	var wg sync.WaitGroup
	self, _ := os.Executable()
	for i, j := range js {
		wg.Add(1)
		sem <- struct{}{}
		go func(i int, j Job) {
			defer wg.Done()
			defer func() { <-sem }()
			wdir := filepath.Join(scratch, fmt.Sprintf("w%d", i))
			os.MkdirAll(wdir, 0700)
			out := filepath.Join(scratch, fmt.Sprintf("w%d.json", i))
			logf := filepath.Join(scratch, fmt.Sprintf("w%d.log", i))
			args := []string{"worker", j.Engine, "-prop", id, "-seed", fmt.Sprint(seed), "-worker", fmt.Sprint(i), "-cases", fmt.Sprint(j.Cases), "-scratch", wdir, "-out", out}
			if j.Extra != "" {
				args = append(args, "-extra", j.Extra)
			}
			bin, env := self, []string(nil)
			if j.Debug {
				bin = debugBin
			}
			if j.Race {
				bin = raceBin
				env = []string{"GORACE=halt_on_error=0 log_path=" + filepath.Join(scratch, fmt.Sprintf("race.w%d", i))}
			}
			status := spawn(bin, args, logf, j.Timeout, env...)
			res, err := vk.ReadResult(out)
			mu.Lock()
			defer mu.Unlock()
			if res != nil && err == nil {
				total.Merge(res)
			}
			if j.Race && status == "exit status 66" {
				status = "ok" // the race detector's exit code when it reported something; reports are summarised separately
			}
			switch status {
			case "ok":
			case "timeout":
				total.Inconclusive = append(total.Inconclusive, fmt.Sprintf("worker %d (%s) hit its wall-clock watchdog", i, j.Engine))
				keepLog(id, logf, out+".journal", fmt.Sprintf("w%d-timeout", i))
			default:
				// the worker died: decide from its journal and log what that means
				last, tail := lastJournal(out+".journal"), crashExcerpt(logf)
				sig, what := "", ""
				if plan.CrashSig != nil {
					sig, what = plan.CrashSig(last, tail)
				}
				if sig == "" {
					total.Inconclusive = append(total.Inconclusive, fmt.Sprintf("worker %d (%s) exited with %s", i, j.Engine, status))
					keepLog(id, logf, out+".journal", fmt.Sprintf("w%d-died", i))
				} else {
					total.Violate(vk.Violation{Property: id, Signature: sig, What: what, Seed: seed, Case: i,
						Witness: map[string]interface{}{"journal": readLines(out+".journal", 400), "log_tail": tail, "status": status}})
				}
			}
		}(i, j)
	}
	wg.Wait()

	// verdict
	findings, ferr := vk.LoadFindings(filepath.Join(verifRoot, "known_findings.json"))
	if ferr != nil {
		fmt.Fprintln(os.Stderr, ferr)
		return 2
	}
	exit := 0
	nviol := 0
	printed := map[string]bool{}
	sort.Slice(total.Violations, func(a, b int) bool { return total.Violations[a].Signature < total.Violations[b].Signature })
	for _, v := range total.Violations {
		if k := findings.Known(v.Property, v.Signature); k != nil {
			if !printed[v.Signature] {
				fmt.Printf("KNOWN-FINDING: property=%s %s [%s]\n", v.Property, k.What, v.Signature)
				printed[v.Signature] = true
			}
			continue
		}
		nviol++
		rp := writeReplay(id, v)
		fmt.Printf("VIOLATION property=%s replay=%s\n", id, rp)
		fmt.Printf("  signature: %s\n  what: %s\n", v.Signature, v.What)
		exit = 1
	}
	// floors
	inconclusive := false
	for k, min := range plan.Floor {
		if total.Counters[k] < min {
			inconclusive = true
			total.Inconclusive = append(total.Inconclusive, fmt.Sprintf("observed %s=%d below the floor %d", k, total.Counters[k], min))
		}
	}
	ev := vk.Evidence{PropertyID: id, Tier: tier, Seed: int64(seed), Level: plan.Level, Assumptions: plan.Assumptions,
		WallS: time.Since(start).Seconds(), Violations: nviol}
	distinct := len(total.Sigs)
	samples := total.Samples
	if len(samples) == 0 {
		samples = []interface{}{"no sample recorded"}
	}
	race := summariseRaces(scratch)
	ev.Coverage = map[string]interface{}{
		"race_detector":       race,
		"evaluations":         total.Cases,
		"distinct_nontrivial": distinct,
		"rule":                plan.Rule,
		"samples":             samples,
		"observed":            total.Counters,
		"worker_processes":    len(js),
		"inconclusive_cases":  total.Inconclusive,
		"known_findings_seen": keys(printed),
		"notes":               total.Notes,
	}
	os.MkdirAll(evidenceRoot(), 0755)
	if err := ev.Write(filepath.Join(evidenceRoot(), id+".json")); err != nil {
		fmt.Fprintln(os.Stderr, "evidence:", err)
		return 2
	}
	fmt.Printf("%s %s: %d cases, %d distinct non-trivial, %d violations, %d known findings, %d inconclusive notes, %.1fs\n",
		id, tier, total.Cases, distinct, nviol, len(printed), len(total.Inconclusive), time.Since(start).Seconds())
	if exit == 0 && (inconclusive || total.Cases == 0 || distinct < 2) {
		fmt.Printf("INCONCLUSIVE property=%s %s\n", id, strings.Join(total.Inconclusive, "; "))
		return 2
	}
	return exit
}

// buildRace compiles the harness (and jiva with it) with the race detector.
func buildRace(scratch string) (string, error) {
	return buildTagged(scratch, "vcheck-race", "verif", true)
}

// buildTagged compiles the harness (and jiva with it) with the given build tags.
func buildTagged(scratch, name, tags string, race bool) (string, error) {
	bin := filepath.Join(scratch, name)
	args := []string{"build", "-tags", tags, "-o", bin}
	if race {
		args = []string{"build", "-race", "-tags", tags, "-o", bin}
	}
	if alt := os.Getenv("VERIF_ALT_REPO"); alt != "" {
		args = append(args, "-modfile="+filepath.Join(verifRoot, ".bin", "alt-"+strings.ReplaceAll(alt, "/", "_"), "go.mod"))
	}
	args = append(args, "./cmd/vcheck")
	cmd := exec.Command("go", args...)
	cmd.Dir = filepath.Join(verifRoot, "harness")
	cgo := "CGO_ENABLED=0"
	if race {
		cgo = "CGO_ENABLED=1"
	}
	cmd.Env = append(os.Environ(), "GOFLAGS=-mod=mod", "GOPROXY=off", "GOSUMDB=off", "GOTOOLCHAIN=local", cgo)
	out, err := cmd.CombinedOutput()
	if err != nil {
		return "", fmt.Errorf("%v: %.300s", err, out)
	}
	return bin, nil
}

// summariseRaces counts and de-duplicates the race detector's reports of this run
// (by the pair of innermost non-runtime functions, line numbers stripped).
func summariseRaces(scratch string) map[string]interface{} {
	files, _ := filepath.Glob(filepath.Join(scratch, "race.w*"))
	reports := 0
	pairs := map[string]int{}
	for _, f := range files {
		lines := readLines(f, 2000000)
		for i := 0; i < len(lines); i++ {
			if !strings.HasPrefix(lines[i], "WARNING: DATA RACE") {
				continue
			}
			reports++
			var tops []string
			for k := i + 1; k < len(lines) && !strings.HasPrefix(lines[k], "=================="); k++ {
				l := lines[k]
				if strings.HasPrefix(l, "Write at") || strings.HasPrefix(l, "Read at") || strings.HasPrefix(l, "Previous write at") || strings.HasPrefix(l, "Previous read at") {
					for m := k + 1; m < len(lines) && strings.TrimSpace(lines[m]) != ""; m += 2 {
						fn := strings.TrimSpace(lines[m])
						if strings.HasPrefix(fn, "runtime.") || strings.HasPrefix(fn, "sync.") || strings.HasPrefix(fn, "sync/atomic.") {
							continue
						}
						if p := strings.LastIndex(fn, "("); p > 0 {
							fn = fn[:p]
						}
						tops = append(tops, fn)
						break
					}
				}
			}
			sort.Strings(tops)
			pairs[strings.Join(tops, " <-> ")]++
		}
	}
	var list []string
	inJiva := 0
	for p, n := range pairs {
		list = append(list, fmt.Sprintf("%dx %s", n, p))
		if strings.Contains(p, "github.com/openebs/jiva") {
			inJiva++
		}
	}
	sort.Strings(list)
	if len(list) > 25 {
		list = list[:25]
	}
	return map[string]interface{}{"race_build_workers": len(files), "reports": reports, "distinct_function_pairs": len(pairs), "pairs_involving_jiva_code": inJiva, "pairs": list,
		"note": "auxiliary sensor only: none of the properties is data-race freedom and the pinned tree has unsynchronised flags by construction; harmful races are caught by the behavioural monitors"}
}

// buildJiva compiles the real jiva binary from the tree under check.
func buildJiva(scratch string) (string, error) {
	repo := os.Getenv("VERIF_ALT_REPO")
	if repo == "" {
		repo = "/repo"
	}
	bin := filepath.Join(scratch, "jiva")
	cmd := exec.Command("go", "build", "-tags", "verif", "-o", bin, ".")
	cmd.Dir = repo
	cmd.Env = append(os.Environ(), "GOFLAGS=-mod=mod", "GOPROXY=off", "GOSUMDB=off", "GOTOOLCHAIN=local", "CGO_ENABLED=0")
	out, err := cmd.CombinedOutput()
	if err != nil {
		return "", fmt.Errorf("%v: %s", err, out)
	}
	return bin, nil
}

func keys(m map[string]bool) []string {
	out := []string{}
	for k := range m {
		out = append(out, k)
	}
	sort.Strings(out)
	return out
}

func pidAlive(dir string) bool {
	i := strings.LastIndex(dir, "-")
	var pid int
	fmt.Sscanf(dir[i+1:], "%d", &pid)
	if pid <= 0 {
		return false
	}
	return syscall.Kill(pid, 0) == nil
}

// spawn runs a worker with stdout/stderr to a file (never a pipe) and a
// wall-clock watchdog (SIGQUIT for a goroutine dump, then SIGKILL).
func spawn(self string, args []string, logf string, timeout time.Duration, env ...string) string {
	lf, err := os.Create(logf)
	if err != nil {
		return "nolog"
	}
	defer lf.Close()
	cmd := exec.Command(self, args...)
	cmd.Stdout = lf
	cmd.Stderr = lf
	cmd.Env = append(append(os.Environ(), "GOTRACEBACK=all"), env...)
	cmd.SysProcAttr = &syscall.SysProcAttr{Setpgid: true, Pdeathsig: syscall.SIGKILL}
	if err := cmd.Start(); err != nil {
		return "nostart"
	}
	done := make(chan error, 1)
	go func() { done <- cmd.Wait() }()
	if timeout <= 0 {
		timeout = 30 * time.Minute
	}
	select {
	case err := <-done:
		if err == nil {
			return "ok"
		}
		return err.Error()
	case <-time.After(timeout):
		syscall.Kill(-cmd.Process.Pid, syscall.SIGQUIT)
		select {
		case <-done:
		case <-time.After(5 * time.Second):
			syscall.Kill(-cmd.Process.Pid, syscall.SIGKILL)
			<-done
		}
		return "timeout"
	}
}

func readLines(path string, max int) []string {
	f, err := os.Open(path)
	if err != nil {
		return nil
	}
	defer f.Close()
	var out []string
	sc := bufio.NewScanner(f)
	sc.Buffer(make([]byte, 1<<20), 1<<24)
	for sc.Scan() {
		out = append(out, sc.Text())
	}
	if len(out) > max {
		out = out[len(out)-max:]
	}
	return out
}

func lastJournal(path string) string {
	l := readLines(path, 1)
	if len(l) == 0 {
		return ""
	}
	return l[0]
}

func tailFile(path string, n int) string {
	return strings.Join(readLines(path, n), "\n")
}

// crashExcerpt returns the part of a worker log that explains its death:
// from the first panic / fatal line on (a full goroutine dump follows it, so
// the tail of the file is not where the cause is).
func crashExcerpt(path string) string {
	lines := readLines(path, 200000)
	for i, l := range lines {
		if strings.HasPrefix(l, "panic:") || strings.HasPrefix(l, "fatal error:") || strings.Contains(l, "level=fatal") || strings.Contains(l, "[signal ") {
			end := i + 45
			if end > len(lines) {
				end = len(lines)
			}
			return strings.Join(lines[i:end], "\n")
		}
	}
	if len(lines) > 60 {
		lines = lines[len(lines)-60:]
	}
	return strings.Join(lines, "\n")
}

func keepLog(id, logf, journal, tag string) {
	dir := filepath.Join(evidenceRoot(), "replays", id)
	os.MkdirAll(dir, 0755)
	b := []byte(crashExcerpt(logf) + "\n--- log tail ---\n" + tailFile(logf, 100) + "\n--- journal ---\n" + tailFile(journal, 300))
	os.WriteFile(filepath.Join(dir, tag+".log"), b, 0644)
}

func writeReplay(id string, v vk.Violation) string {
	dir := filepath.Join(evidenceRoot(), "replays", id)
	os.MkdirAll(dir, 0755)
	name := fmt.Sprintf("%016x.json", vk.Mix(0, v.Signature))
	p := filepath.Join(dir, name)
	b, _ := json.MarshalIndent(v, "", " ")
	os.WriteFile(p, b, 0644)
	return p
}
