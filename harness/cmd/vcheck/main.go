// vcheck is the driver and worker binary of the jiva runtime-monitoring
// harness. `vcheck run <ID> <tier>` runs the check of one property;
// `vcheck worker <engine> ...` is what it spawns (one OS process per batch,
// because the replica package keeps process-global state and because a fatal
// error in jiva must not take the monitors down with it).
package main

import (
	"github.com/docker/docker/pkg/reexec"
	"github.com/openebs/sparse-tools/cli/sfold"
	"github.com/openebs/sparse-tools/cli/ssync"

	"flag"
	"fmt"
	"os"
	"strings"

	"verif/harness/internal/crashpt"
	"verif/harness/internal/reng"
)

func main() {
	// the sync agent re-executes the running binary as "sfold"/"ssync" (docker reexec), exactly as jiva's main does
	reexec.Register("sfold", sfold.Main)
	reexec.Register("ssync", ssync.Main)
	if reexec.Init() {
		return
	}
	if len(os.Args) < 2 {
		usage()
	}
	switch os.Args[1] {
	case "run":
		if len(os.Args) < 4 {
			usage()
		}
		os.Exit(runCheck(os.Args[2], os.Args[3], os.Args[4:]))
	case "replay":
		if len(os.Args) < 3 {
			usage()
		}
		scratch, _ := os.MkdirTemp("", "jvv-replay-")
		rc := reng.Replay(os.Args[2], scratch)
		os.RemoveAll(scratch)
		os.Exit(rc)
	case "worker":
		os.Exit(runWorker(os.Args[2:]))
	case "dbgtrace":
		crashpt.Debug(os.Args[2])
	case "victim":
		os.Exit(crashpt.RunVictim(os.Args[2], os.Args[3]))
	case "crashcheck":
		os.Exit(crashpt.RunCrashCheck(os.Args[2], os.Args[3], os.Args[4]))
	default:
		usage()
	}
}

func usage() {
	fmt.Fprintln(os.Stderr, "usage: vcheck run <ID> quick|thorough | vcheck worker <engine> [flags]")
	os.Exit(2)
}

type workerArgs struct {
	prop    string
	seed    uint64
	worker  int
	cases   int
	scratch string
	out     string
	extra   map[string]string
}

func parseWorker(args []string) (string, workerArgs) {
	engine := args[0]
	fs := flag.NewFlagSet("worker", flag.ExitOnError)
	var wa workerArgs
	var extra string
	fs.StringVar(&wa.prop, "prop", "", "")
	fs.Uint64Var(&wa.seed, "seed", 1, "")
	fs.IntVar(&wa.worker, "worker", 0, "")
	fs.IntVar(&wa.cases, "cases", 1, "")
	fs.StringVar(&wa.scratch, "scratch", "", "")
	fs.StringVar(&wa.out, "out", "", "")
	fs.StringVar(&extra, "extra", "", "k=v,k=v")
	fs.Parse(args[1:])
	wa.extra = map[string]string{}
	for _, kv := range strings.Split(extra, ",") {
		if i := strings.Index(kv, "="); i > 0 {
			wa.extra[kv[:i]] = kv[i+1:]
		}
	}
	return engine, wa
}

func runWorker(args []string) int {
	if len(args) < 1 {
		usage()
	}
	engine, wa := parseWorker(args)
	var err error
	switch engine {
	case "reng":
		if wa.extra["slowpunch"] == "1" {
			err = reng.RunSlowPunch(wa.prop, wa.seed, wa.worker, wa.cases, wa.scratch, wa.out)
			break
		}
		err = reng.RunWorker(wa.prop, wa.seed, wa.worker, wa.cases, wa.scratch, wa.out)
	default:
		err = runOtherWorker(engine, wa)
	}
	if err != nil {
		fmt.Fprintln(os.Stderr, "worker error:", err)
		return 3
	}
	return 0
}
