package cluster

import (
	"fmt"
	"os"
	"os/exec"
	"path/filepath"
	"strings"
	"syscall"
	"time"

	"github.com/openebs/jiva/rpc"
	"github.com/openebs/jiva/types"

	"verif/harness/internal/vk"
)

// injector is an strace process attached to a running replica that makes the
// chosen system calls of every thread of that process fail.
type injector struct {
	cmd *exec.Cmd
	log string
}

// attachInjector attaches strace to pid; spec is the value of -e inject=.
func attachInjector(pid int, trace, spec, log string) (*injector, error) {
	cmd := exec.Command("strace", "-f", "-q", "-p", fmt.Sprint(pid), "-e", "trace="+trace, "-e", "inject="+spec, "-o", log)
	cmd.SysProcAttr = &syscall.SysProcAttr{Pdeathsig: syscall.SIGKILL}
	if err := cmd.Start(); err != nil {
		return nil, err
	}
	// attached once the output file exists and the tracer is still alive
	for i := 0; i < 200; i++ {
		if _, err := os.Stat(log); err == nil {
			break
		}
		time.Sleep(5 * time.Millisecond)
	}
	time.Sleep(30 * time.Millisecond)
	if cmd.ProcessState != nil {
		return nil, fmt.Errorf("strace exited at once")
	}
	return &injector{cmd: cmd, log: log}, nil
}

// detach ends the injection (strace detaches from a still-running tracee on SIGINT).
func (in *injector) detach() int {
	if in == nil || in.cmd == nil || in.cmd.Process == nil {
		return 0
	}
	in.cmd.Process.Signal(syscall.SIGINT)
	done := make(chan struct{})
	go func() { in.cmd.Wait(); close(done) }()
	select {
	case <-done:
	case <-time.After(5 * time.Second):
		in.cmd.Process.Kill()
		<-done
	}
	b, _ := os.ReadFile(in.log)
	return strings.Count(string(b), "(INJECTED)")
}

var diskFaults = []struct{ name, trace, spec string }{
	{"pwrite-EIO", "pwrite64", "pwrite64:error=EIO"},
	{"pwrite-ENOSPC", "pwrite64", "pwrite64:error=ENOSPC"},
	{"pwrite-EIO-every-3rd", "pwrite64", "pwrite64:error=EIO:when=1+3"},
	{"fsync-EIO", "fsync,fdatasync", "fsync,fdatasync:error=EIO"},
	{"pwrite+fsync-EIO", "pwrite64,fsync,fdatasync", "pwrite64,fsync,fdatasync:error=EIO"},
	{"pread-EIO", "pread64", "pread64:error=EIO"},
}

// RunDiskFault: the disk under one of three real replica processes starts
// returning errors (strace attached to the running process injects the errno
// into the chosen system calls) while 1-3 writers and a reader are active.
// C05/C02: the replica answers with an error and must be detached; no write
// and no read fails towards the initiator; acknowledged data stays readable
// (reads at every reader position while the fault is active). After the fault
// the pod is recycled: its directory must reopen (C08's failing-call clause,
// multi-operation form), it is rebuilt and at promotion byte-identical to its
// source (C07), and all RW replicas report the same revision count (C10).
func RunDiskFault(s *Scen, r *vk.Rand, a, b int, bin, base string, cycles int) {
	rf := 3
	size := int64(r.Range(1, 2)) * 4 << 20
	s.Cfg = map[string]interface{}{"scenario": "diskfault", "rf": rf, "size": size}
	cl, err := NewCluster("vol", rf, size, bin, base, a, b, r, s.Res)
	if err != nil {
		s.inconclusive("cluster: %v", err)
		return
	}
	s.Cl = cl
	defer cl.Stop()
	types.RPCReadTimeout, types.RPCWriteTimeout = 4*time.Second, 4*time.Second
	rpc.SetRPCTimeout()
	mon := startMonitor(cl)
	defer mon.Stop()
	for _, p := range cl.Reps {
		if err := cl.StartRep(p); err != nil {
			s.inconclusive("start replica: %v", err)
			return
		}
	}
	if !cl.WaitRW(rf, 120*time.Second) {
		s.inconclusive("bring-up: %v", cl.Modes())
		return
	}
	snaps := map[string][]uint32{}
	rr := vk.NewRand(r.U64())
	for i, n := 0, r.Range(150, 500); i < n; i++ {
		cl.WriteOnce(rr, 0, size/512)
		if i == 100 {
			if img, ok := s.userSnapshot("u0", true); ok {
				snaps["volume-snap-u0.img"] = img
			}
		}
	}
	if len(cl.IOErrs) > 0 {
		s.Fail([]string{"C05", "C02"}, "io-error-with-all-replicas-healthy", cl.IOErrs[0])
		return
	}
	var kinds []string
	for cyc := 0; cyc < cycles && !s.Dead; cyc++ {
		f := diskFaults[(s.Case+cyc*5+r.Intn(2)*3)%len(diskFaults)]
		kinds = append(kinds, f.name)
		s.Cfg["faults"] = kinds
		x := cl.Reps[r.Intn(rf)]
		// two thirds of the cases keep writes during the rebuild 4 KiB-aligned (known finding F11, see RunRebuild)
		// (F11 is listed under C07; under C04 it would surface as "a read from an RW replica misses an acknowledged
		// write" and is kept out of the workload the same way RunRebuild does)
		cl.AlignedOnly = s.Case%3 != 2 || s.Prop == "C04"
		ws := startWriters(cl, r, r.Range(1, 3), []time.Duration{0, 300 * time.Microsecond, 2 * time.Millisecond}[r.Intn(3)])
		time.Sleep(time.Duration(r.Range(30, 300)) * time.Millisecond)
		errsBefore := len(cl.IOErrs)
		if !x.Alive() {
			ws.Stop()
			s.inconclusive("victim replica %d not running", x.Idx)
			return
		}
		x.held = true
		in, err := attachInjector(x.cmd.Process.Pid, f.trace, f.spec, filepath.Join(cl.Base, fmt.Sprintf("inject-%d.log", cyc)))
		if err != nil {
			ws.Stop()
			s.inconclusive("strace attach: %v", err)
			return
		}
		cl.event("cycle %d: %s injected into replica %d", cyc, f.name, x.Idx)
		// reads at every position while the fault is active: whatever is acknowledged must read back
		readBad := ""
		gone := false
		deadline := time.Now().Add(20 * time.Second)
		if f.name == "pread-EIO" || strings.HasPrefix(f.name, "fsync") {
			deadline = time.Now().Add(8 * time.Second)
		}
		for time.Now().Before(deadline) {
			if _, ok := cl.Modes()[x.Addr]; !ok {
				gone = true
				break
			}
			cl.gate.Lock()
			if strings.Contains(f.name, "fsync") {
				cl.C.Sync()
			}
			msg, n := cl.ReadAllPositions(512 * 1024)
			cl.gate.Unlock()
			s.Res.Count("round_robin_chunk_reads", int64(n))
			if msg != "" {
				readBad = msg
				break
			}
			time.Sleep(time.Duration(r.Range(5, 60)) * time.Millisecond)
		}
		injected := in.detach()
		s.Res.Count("syscalls_failed_by_injection", int64(injected))
		s.Res.Count("disk_faults_injected_"+f.name, 1)
		cl.event("cycle %d: injection ended, %d calls failed, replica detached: %v", cyc, injected, gone)
		if readBad != "" {
			ws.Stop()
			s.Fail([]string{"C05", "C04", "C02"}, "diskfault:read-wrong-or-failed-while-one-disk-fails:"+f.name, fmt.Sprintf("while %s was injected into replica %d (one of three): %s", f.name, x.Idx, readBad))
			return
		}
		if len(cl.IOErrs) > errsBefore {
			ws.Stop()
			s.Fail([]string{"C05"}, "minority-failure-surfaced:diskfault:"+f.name, fmt.Sprintf("with 3 replicas, %s on replica %d made a write fail: %s", f.name, x.Idx, cl.IOErrs[errsBefore]))
			return
		}
		if injected > 0 && !gone && strings.HasPrefix(f.name, "pwrite") {
			// the replica's writes failed, yet it is still attached: has it acknowledged what it did not store?
			ws.Stop()
			s.Fail([]string{"C05", "C02"}, "diskfault:failing-replica-not-detached:"+f.name, fmt.Sprintf("%d write calls of replica %d failed with the injected error during 20 s of write load, but the controller still lists it: %v", injected, x.Idx, cl.Modes()))
			return
		}
		if !gone {
			// faults that did not hit a call of the data path (no flush was sent, reads served by others): nothing to detach
			s.Res.Count("disk_faults_without_detach", 1)
		} else {
			s.Res.Count("replicas_detached_after_disk_fault", 1)
		}
		// recycle the pod; the directory the failing calls left behind must open
		cl.Kill(x, false)
		if _, err := SnapshotImage(x.Dir, filepath.Join(cl.Base, "cmp"), "", cl.Size); err != nil {
			ws.Stop()
			s.Fail([]string{"C08"}, "diskfault:directory-unopenable-after-failed-calls:"+f.name, fmt.Sprintf("after %s (%d failed calls) and process death the directory of replica %d cannot be opened: %v", f.name, injected, x.Idx, err))
			return
		}
		s.Res.Count("directories_reopened_after_disk_fault", 1)
		mon.restarted(x.Addr)
		x.held = false
		if err := cl.StartRep(x); err != nil {
			ws.Stop()
			s.inconclusive("restart: %v", err)
			return
		}
		if !cl.WaitRW(rf, 240*time.Second) {
			ws.Stop()
			s.inconclusive("cycle %d: not all replicas RW 240 s after the disk fault: %v", cyc, cl.Modes())
			return
		}
		mon.mu.Lock()
		bad := mon.bad
		mon.mu.Unlock()
		if bad != "" {
			ws.Stop()
			s.Fail([]string{"C07", "C18"}, "more-than-one-WO", bad)
			return
		}
		if !x.LogHas("reloadAndVerify", x.lastStartLog) {
			ws.Stop()
			s.Fail([]string{"C07", "C05"}, "restarted-replica-RW-without-rebuild", fmt.Sprintf("replica %d is listed RW but its process never ran the reload-and-verify step since it was last started", x.Idx))
			return
		}
		s.compareAtPromotion(x, snaps)
		ws.Stop()
		cl.AlignedOnly = false
		if s.Dead {
			return
		}
		s.Res.Count("rebuild_cycles", 1)
	}
}
