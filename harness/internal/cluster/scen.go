package cluster

import (
	"bytes"
	"fmt"
	"os"
	"path/filepath"
	"reflect"
	"regexp"
	"strings"
	"sync"
	"sync/atomic"
	"syscall"
	"time"

	"github.com/openebs/jiva/rpc"
	"github.com/openebs/jiva/types"

	"verif/harness/internal/fsx"
	"verif/harness/internal/reng"
	"verif/harness/internal/vk"
)

// Scen carries the verdict plumbing of one cluster scenario.
type Scen struct {
	Prop   string
	Res    *vk.Result
	Seed   uint64
	Case   int
	Cl     *Cluster
	Others []*Cluster
	Dead   bool
	Cfg    map[string]interface{}
	mon    *monitor
	// ForceInterrupt >= 0: the kind of interruption of every rebuild of this case (else it follows from worker and cycle)
	ForceInterrupt int
}

func (s *Scen) Fail(props []string, sig, what string) {
	s.Dead = true
	hit := false
	for _, p := range props {
		if p == s.Prop {
			hit = true
		}
	}
	if keep := os.Getenv("VERIF_DEV_KEEP"); keep != "" {
		os.MkdirAll(keep, 0755)
		for _, p := range s.Cl.Reps {
			b, _ := os.ReadFile(p.Log)
			os.WriteFile(filepath.Join(keep, fmt.Sprintf("case%d-r%d.log", s.Case, p.Idx)), b, 0644)
			b, _ = os.ReadFile(p.Log + ".agent")
			os.WriteFile(filepath.Join(keep, fmt.Sprintf("case%d-r%d.agent.log", s.Case, p.Idx)), b, 0644)
		}
		for _, p := range s.Cl.Reps {
			fsx.CopyDir(p.Dir, filepath.Join(keep, fmt.Sprintf("case%d-r%d-dir", s.Case, p.Idx)))
		}
		os.WriteFile(filepath.Join(keep, fmt.Sprintf("case%d-events.txt", s.Case)), []byte(strings.Join(s.Cl.Events, "\n")+"\n"+what), 0644)
	}
	if !hit {
		s.Res.Count("other_property_observation:"+props[0]+":"+sig, 1)
		if len(s.Res.Notes) < 6 {
			w := what
			if len(w) > 400 {
				w = w[:400]
			}
			s.Res.Notes = append(s.Res.Notes, fmt.Sprintf("case %d observed %s:%s (not the property under check): %s", s.Case, props[0], sig, w))
		}
		return
	}
	wit := map[string]interface{}{"config": s.Cfg, "events": s.Cl.Events, "io_errors": s.Cl.IOErrs}
	for _, p := range s.Cl.Reps {
		wit["log_tail_r"+fmt.Sprint(p.Idx)] = tailOf(p.Log, 25)
	}
	s.Res.Violate(vk.Violation{Property: s.Prop, Signature: sig, What: what, Seed: s.Seed, Case: s.Case, Witness: wit})
}

func tailOf(path string, n int) []string {
	b, err := os.ReadFile(path)
	if err != nil {
		return nil
	}
	l := strings.Split(strings.TrimSpace(string(b)), "\n")
	if len(l) > n {
		l = l[len(l)-n:]
	}
	for i := range l {
		if len(l[i]) > 220 {
			l[i] = l[i][:220]
		}
	}
	return l
}

func (s *Scen) inconclusive(f string, a ...interface{}) {
	if s.mon != nil && s.healthyDetached(s.mon) {
		return
	}
	if s.Cl != nil && s.Cl.IsWedged() && !s.Dead {
		// not a slow run: the controller stopped giving up its lock, so neither I/O nor management requests are served
		s.Fail([]string{"C05", "C14", s.Prop}, "controller-wedged", "the controller's lock has been held for more than 45 s (ten rpc deadlines) - I/O and management requests hang; last events: "+strings.Join(tailStr(s.Cl.Events, 6), " | ")+"; then: "+fmt.Sprintf(f, a...))
		return
	}
	if s.Cl != nil && !s.Dead {
		// not a slow run either: a replica process that ends with the same fatal error again and again (three times in
		// a row, ignoring failed file transfers and refused connections, which a loaded machine can cause) will not
		// come back however long one waits - its directory or what its peers report about theirs is in a state the
		// code cannot get out of
		modes := s.Cl.Modes()
		for _, p := range s.Cl.Reps {
			others := 0
			for _, q := range s.Cl.Reps {
				if q != p && modes[q.Addr] == types.RW {
					others++
				}
			}
			if others != len(s.Cl.Reps)-1 {
				continue // something else is going on in this volume; the loop may be a consequence of that
			}
			if msg, n := fatalLoop(p.Log); n >= 3 {
				// C12 ("every member has its data and metadata file", "reopening reproduces the chain") and C08 (the directory
				// can be reopened after a process death); C07 promises only that such a replica serves no reads
				s.Fail([]string{"C12", "C08"}, "replica-restart-loop:"+msg, fmt.Sprintf("replica %d ended %d times in a row with the same fatal error and never rejoined: %s; then: %s", p.Idx, n, msg, fmt.Sprintf(f, a...)))
				return
			}
		}
	}
	s.Dead = true
	if keep := os.Getenv("VERIF_DEV_KEEP"); keep != "" && s.Cl != nil {
		os.MkdirAll(keep, 0755)
		for _, cl := range append([]*Cluster{s.Cl}, s.Others...) {
			for _, p := range cl.Reps {
				b, _ := os.ReadFile(p.Log)
				os.WriteFile(filepath.Join(keep, fmt.Sprintf("inc-case%d-%s-r%d.log", s.Case, cl.Name, p.Idx)), b, 0644)
			}
			os.WriteFile(filepath.Join(keep, fmt.Sprintf("inc-case%d-%s-events.txt", s.Case, cl.Name)), []byte(strings.Join(cl.Events, "\n")+"\n"+fmt.Sprintf(f, a...)), 0644)
		}
	}
	s.Res.Inconclusive = append(s.Res.Inconclusive, fmt.Sprintf("case %d: ", s.Case)+fmt.Sprintf(f, a...))
}

var (
	fatalRe  = regexp.MustCompile(`level=fatal msg="((?:[^"\\]|\\.)*)"`)
	snapRe   = regexp.MustCompile(`volume-(snap|head)-[0-9A-Za-z-]+\.img`)
	numberRe = regexp.MustCompile(`[0-9]+`)
)

// fatalLoop returns the (normalised) fatal message a replica's log ends with and how many times in a row it occurs.
func fatalLoop(logPath string) (string, int) {
	b, err := os.ReadFile(logPath)
	if err != nil {
		return "", 0
	}
	var msgs []string
	for _, m := range fatalRe.FindAllStringSubmatch(string(b), -1) {
		t := snapRe.ReplaceAllString(m[1], "<file>")
		t = numberRe.ReplaceAllString(t, "N")
		if len(t) > 120 {
			t = t[:120]
		}
		msgs = append(msgs, t)
	}
	if len(msgs) == 0 {
		return "", 0
	}
	last := msgs[len(msgs)-1]
	for _, env := range []string{"ExitCode", "connection refused", "timeout", "EOF", "connection reset", "i/o timeout", "broken pipe", "Failed to find good replica", "wait for some time", "Out of ports"} {
		if strings.Contains(last, env) {
			return last, 0
		}
	}
	n := 0
	for i := len(msgs) - 1; i >= 0 && msgs[i] == last; i-- {
		n++
	}
	return last, n
}

// monitor samples the controller's replica modes and enforces the
// time-independent rules: at most one WO, and a replica that (re)started is
// seen WO before it is seen RW.
type monitor struct {
	cl      *Cluster
	stop    chan struct{}
	wg      sync.WaitGroup
	mu      sync.Mutex
	samples int64
	maxWO   int
	last    map[string]types.Mode
	// sinceStart[addr] = modes seen since the harness last (re)started that replica
	sinceStart map[string][]types.Mode
	bad        string
	bad2       string // a healthy RW replica was detached
}

func startMonitor(cl *Cluster) *monitor {
	m := &monitor{cl: cl, stop: make(chan struct{}), last: map[string]types.Mode{}, sinceStart: map[string][]types.Mode{}}
	m.wg.Add(1)
	go func() {
		defer m.wg.Done()
		for {
			select {
			case <-m.stop:
				return
			default:
			}
			if !cl.C.TryLock() {
				// the controller is busy (I/O holds the lock); sample later rather than queue behind writers
				time.Sleep(2 * time.Millisecond)
				continue
			}
			cl.C.Unlock()
			modes := cl.Modes()
			m.mu.Lock()
			m.samples++
			wo := 0
			for a, md := range modes {
				if md == types.WO {
					wo++
				}
				if m.last[a] != md {
					m.sinceStart[a] = append(m.sinceStart[a], md)
					cl.event("controller lists %s as %s", a, md)
				}
			}
			for a, was := range m.last {
				if _, ok := modes[a]; !ok {
					cl.event("controller dropped %s", a)
					// a replica that was RW, whose process is up and to which the harness has done nothing since it was
					// started has no reason to be detached
					for _, p := range cl.Reps {
						if p.Addr == a && was == types.RW && p.Alive() && atomic.LoadInt32(&p.Faulted) == 0 && time.Since(p.startedAt) > time.Second && m.bad2 == "" {
							m.bad2 = fmt.Sprintf("replica %d (%s) was RW, its process is running (started %.1f s ago) and nothing was done to it since, yet the controller detached it; membership now %v", p.Idx, a, time.Since(p.startedAt).Seconds(), modes)
						}
					}
				}
			}
			if wo > m.maxWO {
				m.maxWO = wo
			}
			if wo > 1 && m.bad == "" {
				m.bad = fmt.Sprintf("%d replicas are WO at once: %v", wo, modes)
			}
			m.last = modes
			m.mu.Unlock()
			time.Sleep(20 * time.Millisecond)
		}
	}()
	return m
}

func (m *monitor) restarted(addr string) {
	m.mu.Lock()
	m.sinceStart[addr] = nil
	delete(m.last, addr)
	m.mu.Unlock()
}

func (m *monitor) seen(addr string) []types.Mode {
	m.mu.Lock()
	defer m.mu.Unlock()
	return append([]types.Mode(nil), m.sinceStart[addr]...)
}

func (m *monitor) Stop() { close(m.stop); m.wg.Wait() }

// writers runs n writer goroutines on disjoint sector ranges until stopped.
type writers struct {
	stop chan struct{}
	wg   sync.WaitGroup
	cl   *Cluster
}

func startWriters(cl *Cluster, r *vk.Rand, n int, pause time.Duration) *writers {
	w := &writers{stop: make(chan struct{}), cl: cl}
	blocks := cl.Size / 4096
	for g := 0; g < n; g++ {
		lo, hi := blocks*int64(g)/int64(n)*8, blocks*int64(g+1)/int64(n)*8
		rr := vk.NewRand(r.U64())
		w.wg.Add(1)
		go func() {
			defer w.wg.Done()
			for {
				select {
				case <-w.stop:
					return
				default:
				}
				cl.WriteOnce(rr, lo, hi)
				if pause > 0 {
					time.Sleep(pause)
				}
			}
		}()
	}
	return w
}

// Stop ends the writers; a writer that does not come back from the controller within 60 s is left behind (the
// controller is wedged: the scenario reports that, the worker process ends with the run).
func (w *writers) Stop() {
	close(w.stop)
	done := make(chan struct{})
	go func() { w.wg.Wait(); close(done) }()
	select {
	case <-done:
	case <-time.After(60 * time.Second):
		if w.cl != nil {
			atomic.StoreInt32(&w.cl.Wedged, 1)
			w.cl.event("a write did not return from the controller within 60 s")
		}
	}
}

// snapshotModel pauses the writers, snapshots the volume through the
// controller and returns the model image at that point.
func (s *Scen) userSnapshot(name string, pauseWriters bool) ([]uint32, bool) {
	cl := s.Cl
	if pauseWriters {
		cl.gate.Lock()
		defer cl.gate.Unlock()
	}
	_, err := cl.C.Snapshot(name)
	if err != nil {
		cl.event("snapshot %s refused: %v", name, err)
		return nil, false
	}
	cl.event("snapshot %s taken (writers paused: %v)", name, pauseWriters)
	if !pauseWriters {
		return nil, true
	}
	cl.mmu.Lock()
	defer cl.mmu.Unlock()
	for range cl.Maybe {
		return nil, true // unacknowledged writes make the exact image unknown
	}
	return append([]uint32(nil), cl.Acked...), true
}

// compareAtPromotion is the C07 oracle at the moment replica x is first seen RW.
func (s *Scen) compareAtPromotion(x *RepProc, snaps map[string][]uint32) {
	cl := s.Cl
	cl.gate.Lock()
	defer cl.gate.Unlock()
	if _, err := cl.C.Sync(); err != nil {
		cl.event("sync at promotion: %v", err)
	}
	st := cl.C.VerifState()
	s.Res.Count("promotions_checked", 1)
	// (a) what every RW replica, x included, serves through its live block map
	if msg, n := cl.ReadAllPositions(256 * 1024); msg != "" {
		// diagnose: whose stored image lacks acknowledged data?
		diag := ""
		for _, p := range cl.Reps {
			img, err := SnapshotImage(p.Dir, filepath.Join(cl.Base, "cmp"), "", cl.Size)
			if err != nil {
				diag += fmt.Sprintf(" [replica %d: image unreadable: %v]", p.Idx, err)
			} else if m := cl.CheckData(img, 0); m != "" {
				diag += fmt.Sprintf(" [replica %d stored image (reopened copy): %s]", p.Idx, m)
			} else {
				diag += fmt.Sprintf(" [replica %d stored image (reopened copy): matches the model]", p.Idx)
			}
		}
		if os.Getenv("VERIF_DEV_KEEP") != "" {
			diag += "\n" + cl.dumpSector(msg)
		}
		// whose files lack the data: the replica whose promotion triggered the check, or another one that was rebuilt
		// in the same cycle (the source killed while x rebuilt is itself rebuilt afterwards, under the same writes)
		cls := "every-stored-image-is-right"
		var stale []*RepProc
		for _, p := range cl.Reps {
			if strings.Contains(diag, fmt.Sprintf("[replica %d stored image (reopened copy): sector", p.Idx)) {
				stale = append(stale, p)
			}
		}
		for _, p := range stale {
			if p == x {
				cls = "promoted-replica-files-lack-data"
			} else if cls == "every-stored-image-is-right" {
				cls = "files-of-another-rebuilt-replica-lack-data"
			}
		}
		for _, p := range stale {
			if cl.rmwPattern(p, msg) {
				// F11, on whichever rebuilt replica it struck
				cls = "promoted-replica-head-block-mixes-a-newer-sub-block-write-with-stale-sectors"
			}
		}
		if len(stale) == 0 && strings.Contains(diag, fmt.Sprintf("[replica %d stored image (reopened copy): matches", x.Idx)) {
			cls = "promoted-replica-serves-stale-data-its-files-are-right"
		}
		s.Fail([]string{"C07", "C04"}, "promotion:served-data-differs:"+cls, fmt.Sprintf("after replica %d was promoted: %s;%s", x.Idx, msg, diag))
		return
	} else {
		s.Res.Count("round_robin_chunk_reads", int64(n))
	}
	// (b) what x stores, compared with its source and the model
	var src *RepProc
	for _, a := range st.Readers {
		for _, p := range cl.Reps {
			if p.Addr == a && p != x && src == nil {
				src = p
			}
		}
	}
	if src == nil {
		return
	}
	s.compareCountersLocked("at promotion")
	if s.Dead {
		return
	}
	xi, err1 := GetRep(x.IP)
	si, err2 := GetRep(src.IP)
	if err1 != nil || err2 != nil {
		s.inconclusive("replica REST not reachable at promotion: %v %v", err1, err2)
		return
	}
	if xi.RevisionCounter != si.RevisionCounter {
		s.Fail([]string{"C07", "C10"}, "promotion:revision-counter-differs", fmt.Sprintf("promoted replica %d reports revision %s, source replica %d reports %s", x.Idx, xi.RevisionCounter, src.Idx, si.RevisionCounter))
		return
	}
	if len(xi.Chain) == 0 || len(si.Chain) == 0 || !reflect.DeepEqual(xi.Chain[1:], si.Chain[1:]) {
		s.Fail([]string{"C07"}, "promotion:chains-differ", fmt.Sprintf("promoted replica chain %v, source chain %v", xi.Chain, si.Chain))
		return
	}
	tmp := filepath.Join(cl.Base, "cmp")
	names := []string{""}
	for _, n := range si.Chain[1:] {
		if d, ok := si.Disks[n]; ok && d.UserCreated {
			names = append(names, n)
		}
	}
	for _, name := range names {
		xd, err := SnapshotImage(x.Dir, tmp, name, cl.Size)
		if err != nil {
			s.Fail([]string{"C07"}, "promotion:image-unreadable", fmt.Sprintf("image %q of promoted replica %d cannot be read from a copy of its directory: %v", name, x.Idx, err))
			return
		}
		sd, err := SnapshotImage(src.Dir, tmp, name, cl.Size)
		if err != nil {
			s.inconclusive("source image %q unreadable: %v", name, err)
			return
		}
		s.Res.Count("stored_images_compared", 1)
		if !bytes.Equal(xd, sd) {
			off := firstDiff(xd, sd)
			s.Fail([]string{"C07"}, "promotion:stored-image-differs:"+imgClass(name), fmt.Sprintf("image %q stored by promoted replica %d differs from source replica %d at byte %d (sector %d): %s vs %s", name, x.Idx, src.Idx, off, off/512,
				reng.Describe(xd[off/512*512:]), reng.Describe(sd[off/512*512:])))
			return
		}
		if name == "" {
			if m := cl.CheckData(xd, 0); m != "" {
				s.Fail([]string{"C07", "C02"}, "promotion:stored-live-image-differs-from-model", fmt.Sprintf("live image stored by promoted replica %d: %s", x.Idx, m))
				return
			}
		} else if img, ok := snaps[name]; ok && img != nil {
			if d, n := reng.Diff(xd, 0, img); d != "" {
				s.Fail([]string{"C07", "C06"}, "promotion:snapshot-image-differs-from-model", fmt.Sprintf("snapshot %s on promoted replica %d: %d sectors differ; first: %s", name, x.Idx, n, d))
				return
			}
		}
	}
}

func imgClass(n string) string {
	if n == "" {
		return "live"
	}
	return "snapshot"
}

func firstDiff(a, b []byte) int {
	n := len(a)
	if len(b) < n {
		n = len(b)
	}
	for i := 0; i < n; i++ {
		if a[i] != b[i] {
			return i
		}
	}
	return n
}

// RunRebuild is the kill -> restart -> rebuild-under-writes scenario (C07, with
// cross-checks for C05, C09 and C13).
func RunRebuild(s *Scen, r *vk.Rand, a, b int, bin, base string, cycles int) {
	rf := 3
	if r.Chance(25) {
		rf = 2
	}
	size := int64(r.Range(1, 4)) * 4 << 20
	s.Cfg = map[string]interface{}{"rf": rf, "size": size, "cycles": cycles}
	AgentPortWidth = []int{20, 6, 9}[(s.Case/100+s.Case)%3]
	for cyc := 0; cyc < cycles; cyc++ {
		if (s.Case/100+cyc*5)%9 == 7 {
			// every transfer of 2.5 s is going to be killed: each leaves its receiver behind (a receiver ends only when its
			// sender tells it to, or with the agent), which would use up a narrow range for good
			AgentPortWidth = 20
		}
	}
	s.Cfg["agent_port_range_width"] = AgentPortWidth
	cl, err := NewCluster("vol", rf, size, bin, base, a, b, r, s.Res)
	if err != nil {
		s.inconclusive("cluster: %v", err)
		return
	}
	s.Cl = cl
	defer cl.Stop()
	// two thirds of the cases keep foreground writes during rebuilds 4 KiB-aligned: sub-block writes to a
	// rebuilding replica hit known finding F11 (DESIGN.md 6) and would end the case at its first promotion
	alignedRebuild := s.Case%3 != 2 || s.Prop != "C07" || os.Getenv("VERIF_DEV_ALIGNED") == "1"
	s.Cfg["rebuild_writes_4k_aligned"] = alignedRebuild
	types.RPCReadTimeout, types.RPCWriteTimeout = 4*time.Second, 4*time.Second
	rpc.SetRPCTimeout()
	// the monitor runs from the very beginning: the add signals sent to all registered replicas after the
	// volume start are where concurrent add requests occur
	mon := startMonitor(cl)
	defer mon.Stop()
	s.mon = mon
	defer func() { s.mon = nil }()
	if s.Prop == "C10" && (s.Case/100)%2 == 1 {
		// an old volume: every replica starts with a revision count beyond 2^31 (about a week of writes at a few
		// thousand per second), as its revision.counter file would hold it
		big := int64(3000000000) + int64(r.Intn(1000000))
		s.Cfg["initial_revision_count"] = big
		for _, p := range cl.Reps {
			os.MkdirAll(p.Dir, 0700)
			buf := make([]byte, 4096)
			copy(buf, []byte(fmt.Sprint(big)))
			os.WriteFile(filepath.Join(p.Dir, "revision.counter"), buf, 0600)
		}
	}
	for _, p := range cl.Reps {
		if err := cl.StartRep(p); err != nil {
			s.inconclusive("start replica: %v", err)
			return
		}
		if !r.Chance(50) {
			time.Sleep(time.Duration(r.Range(0, 300)) * time.Millisecond)
		}
	}
	if !cl.WaitRW(rf, 120*time.Second) {
		s.inconclusive("bring-up: %d of %d replicas RW after 120s: %v", cl.CountMode(types.RW), rf, cl.Modes())
		return
	}
	cl.event("all %d replicas RW", rf)
	mon.mu.Lock()
	if mon.bad != "" {
		bad := mon.bad
		mon.mu.Unlock()
		s.Fail([]string{"C07", "C18"}, "more-than-one-WO", "during bring-up: "+bad)
		return
	}
	mon.mu.Unlock()
	snaps := map[string][]uint32{}
	// pre-failure history
	rr := vk.NewRand(r.U64())
	for i, n := 0, r.Range(100, 600); i < n; i++ {
		cl.WriteOnce(rr, 0, size/512)
		if i%200 == 150 && !(s.Prop == "C04" && (s.Case/100)%2 == 1) {
			// (one of C04's workers keeps the chain free of snapshots between the checkpoint and the head: the
			// snapshot taken when a replica rejoins is then the one directly above the checkpoint)
			name := fmt.Sprintf("u%d", len(snaps))
			if img, ok := s.userSnapshot(name, true); ok {
				snaps["volume-snap-"+name+".img"] = img
			}
		}
	}
	if len(cl.IOErrs) > 0 {
		s.Fail([]string{"C05", "C02"}, "io-error-with-all-replicas-healthy", "a write failed while all replicas were RW and nothing was injected: "+cl.IOErrs[0])
		return
	}
	for cyc := 0; cyc < cycles && !s.Dead; cyc++ {
		// every cycle starts from a healthy volume (a replica can be knocked out again right after its promotion, e.g.
		// by a late event of its previous attachment: it is then rebuilt once more)
		if cl.CountMode(types.RW) < rf && !cl.WaitRW(rf, 240*time.Second) {
			s.inconclusive("cycle %d: the volume did not get back to %d RW replicas within 240 s: %v", cyc, rf, cl.Modes())
			return
		}
		x := cl.Reps[r.Intn(rf)]
		nw := r.Range(1, 3)
		pause := []time.Duration{0, 200 * time.Microsecond, 3 * time.Millisecond}[r.Intn(3)]
		cl.AlignedOnly = alignedRebuild
		ws := startWriters(cl, r, nw, pause)
		time.Sleep(time.Duration(r.Range(20, 300)) * time.Millisecond)
		how := []string{"kill", "kill", "stop", "shortstop", "idlestopkill"}[r.Intn(5)]
		if s.Prop == "C10" && cyc == 0 {
			how = "shortstop"
		}
		if s.Prop == "C04" && cyc == 0 {
			how = "kill" // the replica misses acknowledged writes and comes back on its old directory
		}
		if s.Prop == "C05" && cyc == 0 && (s.Case/100)%2 == 1 {
			how = "idlestopkill"
		} else if s.Prop == "C05" && cyc == 0 {
			how = "stop"
		}
		if (s.Prop == "C07" || s.Prop == "C12") && (s.Case/100+cyc)%3 == 2 && s.ForceInterrupt < 0 {
			how = "snapkill"
		}
		if how == "shortstop" {
			// the replica stalls for 1.5x the rpc deadline and then carries on: the controller must have given up on it
			// (and detached it) rather than have sent the timed-out request again
			errsBefore := len(cl.IOErrs)
			cl.event("cycle %d: replica %d stalls for 6 s (rpc deadline 4 s), %d writers", cyc, x.Idx, nw)
			atomic.StoreInt32(&x.Faulted, 1)
			syscall.Kill(x.cmd.Process.Pid, syscall.SIGSTOP)
			time.Sleep(6 * time.Second)
			syscall.Kill(x.cmd.Process.Pid, syscall.SIGCONT)
			time.Sleep(2500 * time.Millisecond)
			ws.Stop()
			s.Res.Count("replica_failures_injected_shortstop", 1)
			if rf == 3 && len(cl.IOErrs) > errsBefore {
				s.Fail([]string{"C05"}, "minority-failure-surfaced:shortstop", fmt.Sprintf("with 3 replicas, a 6 s stall of replica %d made a write fail: %s", x.Idx, cl.IOErrs[errsBefore]))
				return
			}
			s.compareCounters("after a 6 s stall of one replica")
			if s.Dead {
				return
			}
			if !cl.WaitRW(rf, 240*time.Second) {
				s.inconclusive("cycle %d: not all replicas RW 240 s after a stall: %v", cyc, cl.Modes())
				return
			}
			cl.gate.Lock()
			msg, _ := cl.ReadAllPositions(256 * 1024)
			cl.gate.Unlock()
			if msg != "" {
				s.Fail([]string{"C07", "C05", "C04"}, "data-differs-after-stall", msg)
				return
			}
			s.compareCounters("after the stalled replica was rebuilt")
			cl.AlignedOnly = false
			continue
		}
		errsBefore := len(cl.IOErrs)
		cl.event("cycle %d: victim replica %d, %s, %d writers", cyc, x.Idx, how, nw)
		if how == "stop" {
			atomic.StoreInt32(&x.Faulted, 1)
			syscall.Kill(x.cmd.Process.Pid, syscall.SIGSTOP)
			cl.event("SIGSTOP replica %d", x.Idx)
		} else if how == "idlestopkill" {
			// an idle volume: the replica hangs long enough for a ping to be outstanding (pings go out every 2 s), then
			// dies - the connection fails while the monitor is waiting for the ping's reply, not between two pings
			ws.Stop()
			time.Sleep(300 * time.Millisecond)
			atomic.StoreInt32(&x.Faulted, 1)
			syscall.Kill(x.cmd.Process.Pid, syscall.SIGSTOP)
			time.Sleep(time.Duration(r.Range(2300, 3800)) * time.Millisecond)
			cl.Kill(x, false)
			cl.event("replica %d hung for a while on an idle volume, then died", x.Idx)
		} else if how == "snapkill" {
			// the replica dies inside a volume snapshot, between two of the directory updates that make it up (strace
			// attached to the process delivers SIGKILL on entry to the chosen call): after the data file was linked, after
			// both links, or with everything in place but volume.meta. The other replicas complete the snapshot; the
			// victim comes back with the leftovers and is rebuilt over them.
			pt := []struct{ call, when, what string }{
				{"linkat", "2", "after the snapshot's data file was linked"},
				{"renameat", "2", "after both links, before the snapshot's metadata"},
				{"renameat", "3", "with the snapshot's files complete, before volume.meta names the new head"},
			}[(s.Case/100+cyc/3+r.Intn(3))%3]
			x.held = true
			atomic.StoreInt32(&x.Faulted, 1)
			in, err := attachInjector(x.cmd.Process.Pid, pt.call, pt.call+":signal=SIGKILL:when="+pt.when, filepath.Join(cl.Base, fmt.Sprintf("snapkill-%d.log", cyc)))
			if err == nil {
				name := fmt.Sprintf("sk%d", cyc)
				_, serr := cl.C.Snapshot(name)
				for i := 0; i < 100 && x.Alive(); i++ {
					time.Sleep(5 * time.Millisecond)
				}
				died := !x.Alive()
				in.detach()
				cl.event("snapshot %s requested with replica %d set to die %s: died=%v, snapshot error: %v", name, x.Idx, pt.what, died, serr)
				if died {
					s.Res.Count("replicas_killed_inside_a_snapshot:"+pt.call+"#"+pt.when, 1)
				}
			}
			cl.Kill(x, false)
		} else {
			cl.Kill(x, r.Chance(30))
		}
		x.held = true
		// the controller must drop it (bounded: rpc deadline 4 s + grace, or connection reset)
		gone := false
		for i := 0; i < 1500; i++ {
			if _, ok := cl.Modes()[x.Addr]; !ok {
				gone = true
				break
			}
			time.Sleep(20 * time.Millisecond)
		}
		if how == "stop" {
			syscall.Kill(x.cmd.Process.Pid, syscall.SIGCONT)
			time.Sleep(100 * time.Millisecond)
			cl.Kill(x, false) // the resumed process lost its connection; the supervisor recycles the pod
		}
		if cl.IsWedged() {
			s.Fail([]string{"C05", "C14"}, "controller-wedged:"+how, fmt.Sprintf("after replica %d was %sed under write load the controller's lock has been held for more than 45 s (rpc deadline 4 s): I/O and management requests hang", x.Idx, how))
			return
		}
		if how == "idlestopkill" {
			ws = startWriters(cl, r, nw, pause) // the rebuild below runs under writes again
			if !gone {
				// the controller has not noticed on its own; with I/O it must (the write path is another detector), but
				// an idle volume keeps a dead replica listed: nothing would ever rebuild it
				ws.Stop()
				s.Fail([]string{"C05"}, "failed-replica-not-detached:idle-volume", fmt.Sprintf("replica %d hung and then died on an idle volume; 30 s later it is still listed: %v", x.Idx, cl.Modes()))
				return
			}
		}
		if !gone {
			ws.Stop()
			s.Fail([]string{"C05"}, "failed-replica-not-detached:"+how, fmt.Sprintf("replica %d was %sed under write load but is still listed after 30 s: %v", x.Idx, how, cl.Modes()))
			return
		}
		if rf == 3 && len(cl.IOErrs) > errsBefore {
			ws.Stop()
			s.Fail([]string{"C05"}, "minority-failure-surfaced:"+how, fmt.Sprintf("with 3 replicas, %s of replica %d made a write fail: %s", how, x.Idx, cl.IOErrs[errsBefore]))
			return
		}
		s.Res.Count("replica_failures_injected_"+how, 1)
		// a user snapshot while one replica is away must be refused (all RF must be RW)
		if r.Chance(30) {
			if _, ok := s.userSnapshot(fmt.Sprintf("bad%d", cyc), false); ok {
				ws.Stop()
				s.Fail([]string{"C13"}, "snapshot-accepted-without-all-RW", "Controller.Snapshot succeeded while a replica was missing")
				return
			}
		}
		time.Sleep(time.Duration(r.Range(0, 500)) * time.Millisecond)
		// restart; optionally interrupt the rebuild once
		interrupt := (s.Case/100 + cyc*5) % 9 // every kind of interruption occurs across the workers of a run
		if s.ForceInterrupt >= 0 {
			interrupt = s.ForceInterrupt
		}
		if (interrupt == 8 || (s.Case/100+cyc)%5 == 4) && s.Prop != "C04" && how != "snapkill" {
			// a replacement: the pod comes back on another node with an empty directory and has to receive the whole chain
			if !x.Alive() {
				ents, _ := os.ReadDir(x.Dir)
				for _, e := range ents {
					os.RemoveAll(filepath.Join(x.Dir, e.Name()))
				}
				s.Res.Count("replicas_replaced_by_an_empty_one", 1)
				cl.event("replica %d comes back with an empty directory", x.Idx)
			}
		}
		mon.restarted(x.Addr)
		x.held = false
		logFrom := x.LogSize()
		if err := cl.StartRep(x); err != nil {
			ws.Stop()
			s.inconclusive("restart: %v", err)
			return
		}
		if s.Prop == "C04" && cyc == 0 {
			interrupt = 0 // a plain rejoin: the replica missed writes, is rebuilt once and then serves reads
		}
		srcKilled := false
		if interrupt == 6 || interrupt == 7 {
			// single file transfers fail: the ssync sender processes that feed the rebuilding replica are killed as
			// they appear - for a moment (one transfer fails, the next ones work) or for 2.5 s (every retry fails too)
			window := 3000 * time.Millisecond
			if interrupt == 7 {
				window = 2500 * time.Millisecond
			}
			deadline := time.Now().Add(40 * time.Second)
			for time.Now().Before(deadline) && !x.LogHas("Synchronizing", logFrom) {
				time.Sleep(2 * time.Millisecond)
			}
			killed := 0
			atomic.StoreInt32(&x.Faulted, 1)
			if interrupt == 6 {
				// the transfer of one data file fails - every attempt at it for 3 s - while metadata files and the other
				// data files get through: the snapshot taken when x rejoined, the one file whose content x does not have
				target := ""
				for _, p := range cl.Reps {
					if p != x && cl.Modes()[p.Addr] == types.RW {
						if ri, err := GetRep(p.IP); err == nil && len(ri.Chain) > 1 {
							target = ri.Chain[1]
						}
						break
					}
				}
				var first time.Time
				for end := time.Now().Add(30 * time.Second); target != "" && time.Now().Before(end); time.Sleep(500 * time.Microsecond) {
					if !first.IsZero() && time.Since(first) > 3*time.Second {
						break
					}
					if n := killSenders(x.IP, target); n > 0 {
						killed += n
						if first.IsZero() {
							first = time.Now()
						}
					}
				}
				s.Cfg["transfer_made_to_fail"] = target
			} else {
				for end := time.Now().Add(window); time.Now().Before(end); time.Sleep(time.Millisecond) {
					killed += killSenders(x.IP, "")
				}
			}
			s.Res.Count("file_transfer_senders_killed", int64(killed))
			s.Res.Count(fmt.Sprintf("rebuilds_with_failing_transfers_kind%d", interrupt), 1)
			cl.event("killed %d ssync senders feeding replica %d during %v", killed, x.Idx, window)
		}
		if interrupt == 8 {
			// the rebuilding replica (and its sync agent) die right after the first metadata file has arrived: whatever
			// order the files travel in, the directory left behind must open again and the next attempt must succeed
			deadline := time.Now().Add(60 * time.Second)
			hit := false
			for time.Now().Before(deadline) && !hit {
				b, _ := os.ReadFile(x.Log)
				if int64(len(b)) > logFrom {
					for _, l := range strings.Split(string(b[logFrom:]), "\n") {
						if strings.Contains(l, "Done synchronizing") && strings.Contains(l, ".img.meta to") {
							hit = true
							break
						}
					}
				}
				if !hit {
					time.Sleep(time.Millisecond)
				}
			}
			if hit {
				s.Res.Count("rebuilds_interrupted_after_the_first_metadata_file", 1)
				cl.event("interrupting rebuild of replica %d after its first metadata file arrived", x.Idx)
				cl.Kill(x, true)
				time.Sleep(time.Duration(r.Range(50, 300)) * time.Millisecond)
				mon.restarted(x.Addr)
				cl.StartRep(x)
			}
		}
		if interrupt > 0 && interrupt < 4 {
			marker := []string{"", "Addreplica", "syncFiles", "reloadAndVerify"}[interrupt]
			deadline := time.Now().Add(40 * time.Second)
			for time.Now().Before(deadline) && !x.LogHas(marker, logFrom) {
				time.Sleep(5 * time.Millisecond)
			}
			time.Sleep(time.Duration(r.Range(0, 60)) * time.Millisecond)
			if x.LogHas(marker, logFrom) {
				s.Res.Count("rebuilds_interrupted_at_"+marker, 1)
				cl.event("interrupting rebuild of replica %d at %q", x.Idx, marker)
				cl.Kill(x, r.Chance(30))
				time.Sleep(time.Duration(r.Range(50, 400)) * time.Millisecond)
				mon.restarted(x.Addr)
				cl.StartRep(x)
			}
		} else if interrupt == 4 && rf == 3 {
			// the source dies while the rebuild runs
			deadline := time.Now().Add(40 * time.Second)
			for time.Now().Before(deadline) && !x.LogHas("syncFiles", logFrom) {
				time.Sleep(5 * time.Millisecond)
			}
			for _, p := range cl.Reps {
				if p != x && cl.Modes()[p.Addr] == types.RW {
					s.Res.Count("rebuilds_with_source_killed", 1)
					cl.event("killing RW replica %d while replica %d rebuilds", p.Idx, x.Idx)
					cl.Kill(p, false)
					mon.restarted(p.Addr)
					srcKilled = true
					time.Sleep(200 * time.Millisecond)
					cl.StartRep(p)
					break
				}
			}
		}
		if interrupt == 5 && rf == 3 {
			// the sending side of the file transfer dies: the sync agent of the source
			deadline := time.Now().Add(40 * time.Second)
			for time.Now().Before(deadline) && !x.LogHas("Synchronizing", logFrom) {
				time.Sleep(2 * time.Millisecond)
			}
			if x.LogHas("Synchronizing", logFrom) {
				for _, p := range cl.Reps {
					if p != x && p.agent != nil && p.agent.Process != nil {
						syscall.Kill(-p.agent.Process.Pid, syscall.SIGKILL)
					}
				}
				s.Res.Count("rebuilds_with_sender_agent_killed", 1)
				cl.event("killed the sync agents of the other replicas while replica %d receives files", x.Idx)
				time.Sleep(300 * time.Millisecond)
				for _, p := range cl.Reps {
					if p != x {
						p.agent = nil
						cl.startAgent(p)
					}
				}
			}
		}
		_ = srcKilled
		// C13: snapshot requests race with the end of the rebuild - refused while a replica is missing, the first one
		// that is accepted lands in the window in which the controller already counts the rebuilt replica as RW while
		// the replica itself is still finishing (its rebuilding flag is cleared last)
		racedSnap := make(chan string, 1)
		if s.Prop == "C13" {
			go func(from int64) {
				name := ""
				defer func() { racedSnap <- name }()
				deadline := time.Now().Add(60 * time.Second)
				for time.Now().Before(deadline) && !x.LogHas("reloadAndVerify", from) {
					time.Sleep(2 * time.Millisecond)
				}
				for i, end := 0, time.Now().Add(8*time.Second); time.Now().Before(end); i++ {
					n := fmt.Sprintf("race%d-%d", cyc, i)
					atomic.StoreInt32(&x.Faulted, 1) // a snapshot that finds x still finishing makes the controller drop it
					if _, err := cl.C.Snapshot(n); err == nil {
						name = n
						cl.event("snapshot %s accepted at the end of the rebuild of replica %d", n, x.Idx)
						return
					}
					time.Sleep(300 * time.Microsecond)
				}
			}(x.LogSize())
		} else {
			racedSnap <- ""
		}
		// wait for x to be RW again (the supervisor restarts whatever exits)
		if !cl.WaitRW(rf, 240*time.Second) {
			ws.Stop()
			s.inconclusive("cycle %d: not all replicas RW 240 s after restart: %v", cyc, cl.Modes())
			return
		}
		before := atomic.LoadInt64(&cl.AckedN)
		_ = before
		if n := <-racedSnap; n != "" {
			// an accepted volume snapshot is in the chain of every replica that is RW
			s.Res.Count("snapshots_raced_with_the_end_of_a_rebuild", 1)
			disk := "volume-snap-" + n + ".img"
			cl.gate.Lock()
			modes := cl.Modes()
			for _, p := range cl.Reps {
				if modes[p.Addr] != types.RW {
					continue
				}
				ri, err := GetRep(p.IP)
				if err != nil {
					continue
				}
				has := false
				for _, c := range ri.Chain {
					if c == disk {
						has = true
					}
				}
				if !has {
					cl.gate.Unlock()
					ws.Stop()
					s.Fail([]string{"C13"}, "accepted-snapshot-missing-on-RW-replica:end-of-rebuild", fmt.Sprintf("snapshot %s was accepted while replica %d finished its rebuild; replica %d is RW but its chain %v does not contain it", n, x.Idx, p.Idx, ri.Chain))
					return
				}
			}
			cl.gate.Unlock()
			snaps[disk] = nil
		}
		// rules over the sampled timeline
		mon.mu.Lock()
		bad := mon.bad
		mon.mu.Unlock()
		if bad != "" {
			ws.Stop()
			s.Fail([]string{"C07", "C18"}, "more-than-one-WO", bad)
			return
		}
		if s.healthyDetached(mon) {
			ws.Stop()
			return
		}
		// a replica that came back while others were RW can only have become RW through a completed rebuild
		// (log evidence of its own process, independent of how densely the controller was sampled)
		if !x.LogHas("reloadAndVerify", x.lastStartLog) {
			ws.Stop()
			s.Fail([]string{"C07", "C05"}, "restarted-replica-RW-without-rebuild", fmt.Sprintf("replica %d is listed RW but its process never ran the reload-and-verify step since it was last started (modes seen: %v)", x.Idx, mon.seen(x.Addr)))
			return
		}
		s.compareAtPromotion(x, snaps)
		ws.Stop()
		cl.AlignedOnly = false
		if s.Dead {
			return
		}
		s.Res.Count("rebuild_cycles", 1)
		// checkpoint agreement once everybody is RW again (C13)
		st := cl.C.VerifState()
		if st.Checkpoint != "" {
			for _, p := range cl.Reps {
				if ri, err := GetRep(p.IP); err == nil && ri.Checkpoint != st.Checkpoint {
					s.Fail([]string{"C13"}, "checkpoint-not-persisted", fmt.Sprintf("controller checkpoint %q, replica %d persisted %q", st.Checkpoint, p.Idx, ri.Checkpoint))
					return
				}
			}
			s.Res.Count("checkpoints_compared_on_disk", 1)
		}
		// a controller snapshot under a running write stream is the same cut on every replica (C13)
		if r.Chance(60) {
			ws2 := startWriters(cl, r, 2, 0)
			time.Sleep(time.Duration(r.Range(10, 80)) * time.Millisecond)
			name := fmt.Sprintf("c%d", cyc)
			_, ok := s.userSnapshot(name, false)
			ws2.Stop()
			if ok {
				disk := "volume-snap-" + name + ".img"
				var ref []byte
				for _, p := range cl.Reps {
					img, err := SnapshotImage(p.Dir, filepath.Join(cl.Base, "cmp"), disk, cl.Size)
					if err != nil {
						s.Fail([]string{"C13", "C06"}, "snapshot-image-unreadable", fmt.Sprintf("snapshot %s on replica %d: %v", name, p.Idx, err))
						return
					}
					if ref == nil {
						ref = img
					} else if !bytes.Equal(ref, img) {
						off := firstDiff(ref, img)
						s.Fail([]string{"C13"}, "snapshot-differs-across-replicas", fmt.Sprintf("snapshot %s taken under concurrent writes differs between replica 0 and replica %d at sector %d: %s vs %s", name, p.Idx, off/512, reng.Describe(ref[off/512*512:]), reng.Describe(img[off/512*512:])))
						return
					}
				}
				snaps[disk] = nil
				s.Res.Count("snapshots_compared_across_replicas", 1)
			}
		}
	}
	if s.Dead {
		return
	}
	// full stop and restart of every replica (C09): every acknowledged write must read back
	if s.Prop == "C09" || r.Chance(40) {
		cl.gate.Lock()
		for _, p := range cl.Reps {
			p.held = true
			cl.Kill(p, false)
		}
		cl.gate.Unlock()
		for i := 0; i < 1500 && len(cl.Modes()) > 0; i++ {
			time.Sleep(20 * time.Millisecond)
		}
		order := r.Intn(6)
		idx := []int{0, 1, 2}
		if rf == 2 {
			idx = []int{0, 1}
		}
		for i := len(idx) - 1; i > 0; i-- {
			j := (order + i) % (i + 1)
			idx[i], idx[j] = idx[j], idx[i]
		}
		cl.event("full restart in order %v", idx)
		// in half of the RF-3 cases the replica the controller elects dies the moment it is signalled and stays down:
		// the other two have registered already and must get the volume up between them
		killLeader := rf == 3 && (s.Prop == "C09" && (s.Case/100)%2 == 0 || r.Chance(25))
		var leaderDown *RepProc
		stopWatch := make(chan struct{})
		watchDone := make(chan struct{})
		go func() {
			defer close(watchDone)
			for killLeader {
				select {
				case <-stopWatch:
					return
				default:
				}
				if cl.C.TryLock() {
					cl.C.Unlock()
					if st := cl.C.VerifState(); st.StartSignalled && st.MaxRevReplica != "" {
						// its start request is held back (see DelayStartMs); it dies once the other replicas have
						// registered too (or 7 s later), so that nobody is left whose *first* registration would
						// make the controller look at the dead leader
						for i := 0; i < 7000 && len(st.Registered) < rf; i++ {
							time.Sleep(time.Millisecond)
							if cl.C.TryLock() {
								cl.C.Unlock()
								st = cl.C.VerifState()
							}
						}
						for _, p := range cl.Reps {
							if p.IP == st.MaxRevReplica {
								p.held = true
								cl.Kill(p, false)
								leaderDown = p
								cl.event("the elected replica %d was killed as it was signalled; it stays down", p.Idx)
							}
						}
						return
					}
				}
				time.Sleep(300 * time.Microsecond)
			}
		}()
		if killLeader {
			// the elected replica's start request takes 9 s to reach the controller: it is still in flight when the
			// replica dies
			atomic.StoreInt32(&cl.DelayStartMs, 9000)
		}
		for _, i := range idx {
			mon.restarted(cl.Reps[i].Addr)
			cl.Reps[i].held = false
			cl.StartRep(cl.Reps[i])
			time.Sleep(time.Duration(r.Range(0, 1500)) * time.Millisecond)
		}
		ok := cl.WaitRW(rf/2+1, 240*time.Second)
		close(stopWatch)
		<-watchDone
		atomic.StoreInt32(&cl.DelayStartMs, 0)
		if leaderDown != nil {
			s.Res.Count("full_restarts_with_elected_replica_killed_at_signal", 1)
		}
		if !ok {
			// bounded progress: the replicas retry their registration every 5 s, 240 s are 48 such periods. If the
			// replicas that are supposed to be up have been running steadily, the volume is not coming back.
			steady := 0
			for _, p := range cl.Reps {
				if p != leaderDown && p.Alive() && time.Since(p.startedAt) > 60*time.Second {
					steady++
				}
			}
			if steady >= rf/2+1 && !cl.IsWedged() {
				s.Fail([]string{"C09"}, "volume-did-not-come-back-after-full-restart", fmt.Sprintf("all replicas stopped and came back (elected replica killed at its start signal: %v); %d replica processes have been up for more than 60 s, yet 240 s later no quorum is RW: %v", leaderDown != nil, steady, cl.Modes()))
				return
			}
			s.inconclusive("full restart: no quorum RW after 240 s: %v", cl.Modes())
			return
		}
		if leaderDown != nil {
			leaderDown.held = false
			cl.StartRep(leaderDown)
		}
		if msg, n := cl.ReadAllPositions(256 * 1024); msg != "" {
			s.Fail([]string{"C09"}, "acknowledged-write-lost-after-full-restart", "after all replicas stopped and came back: "+msg)
			return
		} else {
			s.Res.Count("round_robin_chunk_reads", int64(n))
		}
		s.Res.Count("full_restarts", 1)
	}
}

// dumpSector (dev aid) prints, for every replica, which chain file holds what at the sector named in msg.
func (cl *Cluster) dumpSector(msg string) string {
	var sector int64
	if i := strings.Index(msg, "sector "); i >= 0 {
		fmt.Sscanf(msg[i:], "sector %d", &sector)
	}
	out := fmt.Sprintf("sector %d (block %d):\n", sector, sector/8)
	for _, p := range cl.Reps {
		ri, err := GetRep(p.IP)
		if err != nil {
			out += fmt.Sprintf(" replica %d: %v\n", p.Idx, err)
			continue
		}
		out += fmt.Sprintf(" replica %d mode %s rev %s chain %v\n", p.Idx, ri.ReplicaMode, ri.RevisionCounter, ri.Chain)
		for _, n := range ri.Chain {
			f, err := os.Open(filepath.Join(p.Dir, n))
			if err != nil {
				out += fmt.Sprintf("   %s: %v\n", n, err)
				continue
			}
			buf := make([]byte, 512)
			f.ReadAt(buf, sector*512)
			pos, _ := syscall.Seek(int(f.Fd()), sector/8*4096, 3)
			f.Close()
			out += fmt.Sprintf("   %-55s extent_at_block=%v holds %s\n", n, pos == sector/8*4096, reng.Describe(buf))
		}
	}
	return out
}

// rmwPattern recognises the shape of known finding F11 at the sector named in
// msg: in the promoted replica's head the 4 KiB block holds the stale sector
// next to a sector written by a newer write than the one that is missing, i.e.
// a sub-block write was read-modify-written from the not yet synchronised chain.
func (cl *Cluster) rmwPattern(x *RepProc, msg string) bool {
	var sector int64
	var holds, expected uint32
	i := strings.Index(msg, "sector ")
	if i < 0 {
		return false
	}
	if n, _ := fmt.Sscanf(msg[i:], "sector %d holds write#%d, expected acknowledged write#%d", &sector, &holds, &expected); n != 3 {
		return false
	}
	ri, err := GetRep(x.IP)
	if err != nil || len(ri.Chain) == 0 {
		return false
	}
	f, err := os.Open(filepath.Join(x.Dir, ri.Chain[0]))
	if err != nil {
		return false
	}
	defer f.Close()
	blk := sector / 8
	if pos, _ := syscall.Seek(int(f.Fd()), blk*4096, 3); pos != blk*4096 {
		return false // the head has no extent there: not this pattern
	}
	buf := make([]byte, 4096)
	if _, err := f.ReadAt(buf, blk*4096); err != nil {
		return false
	}
	stale, newer := false, false
	for k := int64(0); k < 8; k++ {
		d := reng.Describe(buf[k*512:])
		var w, sec uint32
		if d == "zeros" {
			d = fmt.Sprintf("write#0(sector %d)", blk*8+k)
		}
		if n, _ := fmt.Sscanf(d, "write#%d(sector %d)", &w, &sec); n == 2 {
			if blk*8+k == sector && w == holds {
				stale = true
			}
			if blk*8+k != sector && w > expected {
				newer = true
			}
		}
	}
	return stale && newer
}

// compareCounters: all RW replicas of a volume report the same revision count (C10), checked with writers paused.
func (s *Scen) compareCounters(when string) {
	s.Cl.gate.Lock()
	defer s.Cl.gate.Unlock()
	s.compareCountersLocked(when)
}

func (s *Scen) compareCountersLocked(when string) {
	cl := s.Cl
	modes := cl.Modes()
	ref, refIdx := "", -1
	for _, p := range cl.Reps {
		if modes[p.Addr] != types.RW {
			continue
		}
		ri, err := GetRep(p.IP)
		if err != nil {
			return
		}
		s.Res.Count("rw_counter_comparisons", 1)
		if ref == "" {
			ref, refIdx = ri.RevisionCounter, p.Idx
		} else if ri.RevisionCounter != ref {
			s.Fail([]string{"C10", "C07"}, "rw-replicas-report-different-revision-counts", fmt.Sprintf("%s: RW replica %d reports revision %s, RW replica %d reports %s", when, refIdx, ref, p.Idx, ri.RevisionCounter))
			return
		}
	}
}

func tailStr(l []string, n int) []string {
	if len(l) > n {
		return l[len(l)-n:]
	}
	return l
}

// killSenders kills the ssync sender processes whose destination host is ip (and whose file name ends with suffix,
// if one is given) and returns how many it found.
func killSenders(ip, suffix string) int {
	ents, _ := os.ReadDir("/proc")
	n := 0
	for _, e := range ents {
		pid := 0
		if _, err := fmt.Sscanf(e.Name(), "%d", &pid); err != nil || pid <= 1 {
			continue
		}
		b, err := os.ReadFile("/proc/" + e.Name() + "/cmdline")
		if err != nil {
			continue
		}
		args := strings.Split(string(b), "\x00")
		if len(args) == 0 || !strings.Contains(args[0], "ssync") {
			continue
		}
		sender := false
		for i, a := range args {
			if a == "-host" && i+1 < len(args) && args[i+1] == ip {
				sender = true
			}
		}
		if suffix != "" && !strings.HasSuffix(strings.TrimRight(args[len(args)-1], "\x00"), suffix) {
			if len(args) < 2 || !strings.HasSuffix(args[len(args)-2], suffix) { // cmdline ends with a NUL: last element is empty
				sender = false
			}
		}
		if sender && syscall.Kill(pid, syscall.SIGKILL) == nil {
			n++
		}
	}
	return n
}

// healthyDetached reports (once) that the controller detached a replica that was RW, alive and untouched.
func (s *Scen) healthyDetached(m *monitor) bool {
	m.mu.Lock()
	b := m.bad2
	m.mu.Unlock()
	if b == "" || s.Dead {
		return false
	}
	s.Fail([]string{"C05", "C18", "C07", "C02"}, "healthy-replica-detached", b)
	return true
}
