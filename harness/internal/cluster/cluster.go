// Package cluster is engine E5: everything real. An in-process controller with
// the real remote backend factory and REST server talks to real `jiva replica`
// and `jiva sync-agent` OS processes (one loopback address per replica, the
// canonical ports) that the harness starts, kills and restarts like a pod
// supervisor would.
package cluster

import (
	"encoding/json"
	"fmt"
	"net"
	"net/http"
	"os"
	"os/exec"
	"path/filepath"
	"runtime"
	"strconv"
	"strings"
	"sync"
	"sync/atomic"
	"syscall"
	"time"

	"github.com/openebs/jiva/backend/dynamic"
	"github.com/openebs/jiva/backend/remote"
	"github.com/openebs/jiva/controller"
	crest "github.com/openebs/jiva/controller/rest"
	"github.com/openebs/jiva/replica"
	"github.com/openebs/jiva/types"

	"verif/harness/internal/ctlsim"
	"verif/harness/internal/fsx"
	"verif/harness/internal/reng"
	"verif/harness/internal/vk"
)

// RepProc is one replica "pod": a jiva replica process plus its sync agent.
type RepProc struct {
	Idx          int
	IP           string
	Addr         string
	Dir          string
	Log          string
	PortBase     int
	portLock     string
	Extra        []string
	Env          []string
	Wrap         []string // command prefix the replica is started under
	cmd          *exec.Cmd
	agent        *exec.Cmd
	Starts       int
	held         bool // the supervisor is told to leave this replica down
	lastStartLog int64
	startedAt    time.Time
	// Faulted: the harness did something to this process (or provoked its removal) since it was last started (atomic)
	Faulted int32
}

// Cluster is one volume: controller + replicas + model of acknowledged data.
// AgentPortWidth is the number of ports a sync agent may hand to ssync receivers (--listen-port-range; jiva's default
// range holds 101). A narrow range makes the allocator wrap around within one rebuild, which is where receivers left
// behind by failed transfers meet new ones.
var AgentPortWidth = 20

type Cluster struct {
	Name  string
	RF    int
	Size  int64
	Bin   string
	Base  string
	CtlIP string
	C     *controller.Controller
	srv   *http.Server
	Front *ctlsim.Frontend
	Reps  []*RepProc
	Res   *vk.Result
	R     *vk.Rand

	AlignedOnly  bool         // dev aid: only 4 KiB-aligned writes
	gate         sync.RWMutex // writers hold it shared per operation; pausing takes it exclusively
	mmu          sync.Mutex
	Acked        []uint32
	Maybe        map[int64][]uint32
	nextWID      uint32
	IOErrs       []string
	Writes       int64
	AckedN       int64
	Events       []string
	emu          sync.Mutex
	Wedged       int32
	DelayStartMs int32 // start requests to the controller's REST API are held this long (atomic)
	lmu          sync.Mutex
	lastModes    map[string]types.Mode
}

func (cl *Cluster) event(f string, a ...interface{}) {
	cl.emu.Lock()
	if len(cl.Events) < 400 {
		cl.Events = append(cl.Events, fmt.Sprintf("%6.2fs ", time.Since(t0).Seconds())+fmt.Sprintf(f, a...))
	}
	cl.emu.Unlock()
}

var t0 = time.Now()

// NewCluster starts a controller (REST on ctlIP:9501) for a volume with rf replicas.
func NewCluster(name string, rf int, size int64, bin, base string, a, b int, r *vk.Rand, res *vk.Result) (*Cluster, error) {
	cl := &Cluster{Name: name, RF: rf, Size: size, Bin: bin, Base: base, Res: res, R: r, Maybe: map[int64][]uint32{}, Acked: make([]uint32, size/512), nextWID: 1}
	cl.CtlIP = fmt.Sprintf("127.%d.%d.1", a, b)
	os.Setenv("REPLICATION_FACTOR", strconv.Itoa(rf))
	cl.Front = &ctlsim.Frontend{}
	cl.C = controller.NewController(controller.WithName(name), controller.WithClusterIP(cl.CtlIP),
		controller.WithBackend(dynamic.New(map[string]types.BackendFactory{"tcp": remote.New()})),
		controller.WithFrontend(cl.Front, cl.CtlIP), controller.WithRF(rf))
	l, err := net.Listen("tcp", cl.CtlIP+":9501")
	if err != nil {
		return nil, err
	}
	router := crest.NewRouter(crest.NewServer(cl.C))
	cl.srv = &http.Server{Handler: http.HandlerFunc(func(w http.ResponseWriter, r *http.Request) {
		// a slow network between a replica and the controller, on demand: the elected replica's start request is
		// still in flight when the scenario lets that replica die
		if d := atomic.LoadInt32(&cl.DelayStartMs); d > 0 && r.Method == "POST" && r.URL.Query().Get("action") == "start" {
			time.Sleep(time.Duration(d) * time.Millisecond)
		}
		router.ServeHTTP(w, r)
	})}
	go cl.srv.Serve(l)
	for i := 0; i < rf; i++ {
		cl.Reps = append(cl.Reps, cl.newRep(i, a, b))
	}
	return cl, nil
}

func (cl *Cluster) newRep(i, a, b int) *RepProc {
	ip := fmt.Sprintf("127.%d.%d.%d", a, b, i+2)
	p := &RepProc{Idx: i, IP: ip, Addr: "tcp://" + ip + ":9502", Dir: filepath.Join(cl.Base, fmt.Sprintf("%s-r%d", cl.Name, i)),
		Log: filepath.Join(cl.Base, fmt.Sprintf("%s-r%d.log", cl.Name, i))}
	// below the kernel's ephemeral range (32768-60999): a receiver cannot bind a port that an outgoing connection of any
	// process on the machine happens to use as its local port, and the transfer then fails after the sender's 7 s of
	// retries (seen as rebuilds that needed many attempts when several clusters ran side by side)
	p.PortBase, p.portLock = claimPortRange((os.Getpid()*37 + a*101 + b*13 + i*7) % 1000)
	return p
}

// claimPortRange reserves a range of 20 ports for one sync agent, machine-wide. The ssync receivers an agent starts
// listen on *all* interfaces (":port"), and the replicas of every cluster of every check that runs at the same time
// share one network namespace here (in a deployment each pod has its own): two agents with overlapping ranges make
// a sender of one cluster deliver its file to a receiver of another - a metadata file then names a snapshot of the
// other volume and the replica cannot open its chain any more (seen once as a "restart loop" on the unchanged tree,
// before ranges were exclusive). A range is held by a lock file created with O_EXCL that names the holder's pid;
// locks of dead processes are taken over.
func claimPortRange(start int) (int, string) {
	dir := filepath.Join(os.TempDir(), "jvv-portlocks")
	os.MkdirAll(dir, 0777)
	for k := 0; k < 1000; k++ {
		slot := (start + k) % 1000
		lock := filepath.Join(dir, fmt.Sprintf("slot-%d", slot))
		for try := 0; try < 2; try++ {
			f, err := os.OpenFile(lock, os.O_CREATE|os.O_EXCL|os.O_WRONLY, 0666)
			if err == nil {
				fmt.Fprintf(f, "%d", os.Getpid())
				f.Close()
				return 12000 + slot*20, lock
			}
			b, _ := os.ReadFile(lock)
			pid := 0
			fmt.Sscanf(string(b), "%d", &pid)
			if pid > 0 && syscall.Kill(pid, 0) == nil {
				break // held by a live process
			}
			if st, e := os.Stat(lock); e == nil && time.Since(st.ModTime()) < 2*time.Second && pid == 0 {
				break // just created, pid not written yet
			}
			os.Remove(lock) // holder is gone
		}
	}
	return 12000 + start*20, "" // nothing free (1000 ranges in use): fall back to the unshared scheme
}

// StartRep launches the replica and its sync agent (the supervisor's restart).
func (cl *Cluster) StartRep(p *RepProc) error {
	os.MkdirAll(p.Dir, 0700)
	lf, err := os.OpenFile(p.Log, os.O_CREATE|os.O_APPEND|os.O_WRONLY, 0644)
	if err != nil {
		return err
	}
	p.lastStartLog = p.LogSize()
	fmt.Fprintf(lf, "=== harness: start #%d at %.2fs\n", p.Starts+1, time.Since(t0).Seconds())
	args := []string{"replica", "--frontendIP", cl.CtlIP, "--listen", p.IP + ":9502", "--size", strconv.FormatInt(cl.Size, 10), "--sync-agent=false", "--logtofile=false"}
	args = append(args, p.Extra...)
	args = append(args, p.Dir)
	if len(p.Wrap) > 0 {
		// started under a tracer (e.g. strace delaying its connect calls); signals go to the process group
		p.cmd = exec.Command(p.Wrap[0], append(append(append([]string(nil), p.Wrap[1:]...), cl.Bin), args...)...)
	} else {
		p.cmd = exec.Command(cl.Bin, args...)
	}
	p.cmd.Stdout, p.cmd.Stderr = lf, lf
	p.cmd.Env = append(os.Environ(), "REPLICATION_FACTOR="+strconv.Itoa(cl.RF))
	p.cmd.Env = append(p.cmd.Env, p.Env...)
	p.cmd.SysProcAttr = &syscall.SysProcAttr{Pdeathsig: syscall.SIGKILL, Setpgid: true}
	if err := p.cmd.Start(); err != nil {
		lf.Close()
		return err
	}
	go func(c *exec.Cmd) { c.Wait(); lf.Close() }(p.cmd)
	if p.agent == nil || p.agent.ProcessState != nil {
		if err := cl.startAgent(p); err != nil {
			return err
		}
	}
	p.Starts++
	p.startedAt = time.Now()
	atomic.StoreInt32(&p.Faulted, 0)
	cl.event("start replica %d (%s) #%d", p.Idx, p.IP, p.Starts)
	return nil
}

func (cl *Cluster) startAgent(p *RepProc) error {
	af, _ := os.OpenFile(p.Log+".agent", os.O_CREATE|os.O_APPEND|os.O_WRONLY, 0644)
	p.agent = exec.Command(cl.Bin, "sync-agent", "--listen", p.IP+":9504", "--listen-port-range", fmt.Sprintf("%d-%d", p.PortBase, p.PortBase+AgentPortWidth-1))
	p.agent.Dir = p.Dir
	p.agent.Stdout, p.agent.Stderr = af, af
	p.agent.SysProcAttr = &syscall.SysProcAttr{Pdeathsig: syscall.SIGKILL, Setpgid: true}
	if err := p.agent.Start(); err != nil {
		return err
	}
	go func(c *exec.Cmd) { c.Wait(); af.Close() }(p.agent)
	return nil
}

func (p *RepProc) Alive() bool {
	return p.cmd != nil && p.cmd.Process != nil && syscall.Kill(p.cmd.Process.Pid, 0) == nil && p.cmd.ProcessState == nil
}

// Kill sends SIGKILL to the replica process (and optionally its sync agent).
func (cl *Cluster) Kill(p *RepProc, agentToo bool) {
	atomic.StoreInt32(&p.Faulted, 1)
	if p.cmd != nil && p.cmd.Process != nil {
		syscall.Kill(-p.cmd.Process.Pid, syscall.SIGKILL)
	}
	if agentToo && p.agent != nil && p.agent.Process != nil {
		syscall.Kill(-p.agent.Process.Pid, syscall.SIGKILL)
		time.Sleep(20 * time.Millisecond)
		p.agent = nil
	}
	cl.event("SIGKILL replica %d (agent too: %v)", p.Idx, agentToo)
	for i := 0; i < 200 && p.Alive(); i++ {
		time.Sleep(5 * time.Millisecond)
	}
}

// Stop tears everything down.
func (cl *Cluster) Stop() {
	defer func() {
		for _, p := range cl.Reps {
			if p.portLock != "" {
				os.Remove(p.portLock)
			}
		}
	}()
	for _, p := range cl.Reps {
		if p.cmd != nil && p.cmd.Process != nil {
			syscall.Kill(-p.cmd.Process.Pid, syscall.SIGKILL)
		}
		if p.agent != nil && p.agent.Process != nil {
			syscall.Kill(-p.agent.Process.Pid, syscall.SIGKILL)
		}
	}
	if cl.srv != nil {
		cl.srv.Close()
	}
	time.Sleep(50 * time.Millisecond)
}

// Modes returns address -> mode under the controller lock. A controller whose
// lock cannot be had for 45 s (more than ten rpc deadlines) is wedged: nothing
// is served any more; the last view is returned and Wedged is set.
func (cl *Cluster) Modes() map[string]types.Mode {
	if atomic.LoadInt32(&cl.Wedged) != 0 {
		cl.lmu.Lock()
		defer cl.lmu.Unlock()
		return cl.lastModes
	}
	got := cl.C.TryLock()
	if !got {
		// queue for the lock the way every management request does (a pending Lock makes new readers wait, so the
		// writers' read locks cannot starve it - polling TryLock under three busy writers can fail for as long as
		// they run, which is what a loaded machine once turned into a false "wedged")
		var mu sync.Mutex
		state := 0 // 0 waiting, 1 acquired and handed over, 2 abandoned
		done := make(chan struct{})
		go func() {
			cl.C.Lock()
			mu.Lock()
			if state == 2 {
				cl.C.Unlock()
			} else {
				state = 1
			}
			mu.Unlock()
			close(done)
		}()
		select {
		case <-done:
			got = true
		case <-time.After(45 * time.Second):
			mu.Lock()
			if state == 1 {
				got = true
			} else {
				state = 2
			}
			mu.Unlock()
		}
	}
	if !got {
		atomic.StoreInt32(&cl.Wedged, 1)
		cl.event("a request for the controller's lock has waited 45 s: wedged")
		if keep := os.Getenv("VERIF_DEV_KEEP"); keep != "" {
			buf := make([]byte, 1<<22)
			os.MkdirAll(keep, 0755)
			os.WriteFile(filepath.Join(keep, "wedged-goroutines.txt"), buf[:runtime.Stack(buf, true)], 0644)
		}
		cl.lmu.Lock()
		defer cl.lmu.Unlock()
		return cl.lastModes
	}
	cl.C.Unlock()
	st := cl.C.VerifState()
	defer func() {
		cl.lmu.Lock()
		cl.lastModes = cl.modesOf(st)
		cl.lmu.Unlock()
	}()
	m := map[string]types.Mode{}
	for _, r := range st.Replicas {
		m[r.Address] = r.Mode
	}
	return m
}

func (cl *Cluster) CountMode(mode types.Mode) int {
	n := 0
	for _, m := range cl.Modes() {
		if m == mode {
			n++
		}
	}
	return n
}

// WaitRW waits until n replicas are RW (bounded); false = not reached.
func (cl *Cluster) WaitRW(n int, d time.Duration) bool {
	end := time.Now().Add(d)
	for time.Now().Before(end) {
		if cl.CountMode(types.RW) >= n {
			return true
		}
		if cl.IsWedged() {
			return false
		}
		// supervisor: restart replicas that exited (a detached replica terminates itself)
		for _, p := range cl.Reps {
			if p.cmd != nil && !p.Alive() && !p.held {
				cl.StartRep(p)
			}
		}
		time.Sleep(50 * time.Millisecond)
	}
	return false
}

// ---------------------------------------------------------------- I/O and model

// WriteOnce issues one stamped write inside [lo,hi) sectors and records the outcome.
func (cl *Cluster) WriteOnce(r *vk.Rand, lo, hi int64) {
	cl.gate.RLock()
	defer cl.gate.RUnlock()
	secs := hi - lo
	o := lo + int64(r.Intn(int(secs)))
	l := int64(r.Range(1, 64))
	if r.Chance(30) {
		l = int64(r.Range(1, 8)) * 8
		o = o / 8 * 8
	}
	if cl.AlignedOnly {
		o = o / 8 * 8
		l = (l + 7) / 8 * 8
		hi = hi / 8 * 8
		if o >= hi {
			o = hi - 8
		}
	}
	if o+l > hi {
		l = hi - o
	}
	if l <= 0 {
		return
	}
	wid := atomic.AddUint32(&cl.nextWID, 1)
	buf := reng.Payload(o*512, l*512, wid)
	n, err := cl.C.WriteAt(buf, o*512)
	atomic.AddInt64(&cl.Writes, 1)
	cl.mmu.Lock()
	defer cl.mmu.Unlock()
	if err == nil && int64(n) == l*512 {
		for s := o; s < o+l; s++ {
			cl.Acked[s] = wid
			delete(cl.Maybe, s)
		}
		cl.AckedN++
		return
	}
	for s := o; s < o+l; s++ {
		cl.Maybe[s] = append(cl.Maybe[s], wid)
	}
	if len(cl.IOErrs) < 50 {
		cl.IOErrs = append(cl.IOErrs, fmt.Sprintf("%.2fs write#%d [%d,+%d): n=%d err=%v modes=%v", time.Since(t0).Seconds(), wid, o, l, n, err, cl.Modes()))
	}
}

// CheckRead compares data read through the controller with the model.
func (cl *Cluster) CheckData(data []byte, off int64) string {
	cl.mmu.Lock()
	defer cl.mmu.Unlock()
	w := &ctlsim.World{Acked: cl.Acked, Maybe: cl.Maybe}
	return w.CheckData(data, off)
}

// ReadAllPositions reads the whole volume once per reader position.
func (cl *Cluster) ReadAllPositions(chunk int64) (string, int) {
	st := cl.C.VerifState()
	n := len(st.Readers)
	reads := 0
	for off := int64(0); off < cl.Size; off += chunk {
		l := chunk
		if off+l > cl.Size {
			l = cl.Size - off
		}
		for k := 0; k < n; k++ {
			buf := make([]byte, l)
			if _, err := cl.C.ReadAt(buf, off); err != nil {
				return fmt.Sprintf("read [%d,+%d) failed: %v", off, l, err), reads
			}
			reads++
			if m := cl.CheckData(buf, off); m != "" {
				return fmt.Sprintf("read [%d,+%d) at cursor position %d of %d: %s", off, l, k, n, m), reads
			}
		}
	}
	return "", reads
}

// ---------------------------------------------------------------- replica REST helpers

type RepInfo struct {
	State           string                    `json:"state"`
	Chain           []string                  `json:"chain"`
	ReplicaMode     string                    `json:"replicamode"`
	RevisionCounter string                    `json:"revisioncounter"`
	CloneStatus     string                    `json:"clonestatus"`
	Checkpoint      string                    `json:"checkpoint"`
	Rebuilding      bool                      `json:"rebuilding"`
	Disks           map[string]types.DiskInfo `json:"disks"`
}

var httpc = &http.Client{Timeout: 5 * time.Second}

func GetRep(ip string) (*RepInfo, error) {
	resp, err := httpc.Get("http://" + ip + ":9502/v1/replicas/1")
	if err != nil {
		return nil, err
	}
	defer resp.Body.Close()
	if resp.StatusCode != 200 {
		return nil, fmt.Errorf("status %d", resp.StatusCode)
	}
	ri := &RepInfo{}
	return ri, json.NewDecoder(resp.Body).Decode(ri)
}

// SnapshotImage reads the image of snapshot `name` (or the live image if name
// is "") from an extent-exact copy of a replica directory.
func SnapshotImage(dir, tmp, name string, size int64) ([]byte, error) {
	os.RemoveAll(tmp)
	defer os.RemoveAll(tmp)
	defer os.RemoveAll(tmp + ".roc")
	if err := fsx.CopyDir(dir, tmp); err != nil {
		return nil, err
	}
	if name != "" {
		e := &reng.Engine{Dir: tmp, M: &reng.Model{Size: size}}
		return e.RevertOnCopy(name)
	}
	save := types.ShouldPunchHoles
	types.ShouldPunchHoles = false
	defer func() { types.ShouldPunchHoles = save }()
	r, err := replica.New(true, size, 512, tmp, nil, "")
	if err != nil {
		return nil, err
	}
	buf := make([]byte, r.Info().Size)
	_, err = r.ReadAt(buf, 0)
	r.Close()
	return buf, err
}

// LogHas tells whether the replica's log contains s after byte offset from.
func (p *RepProc) LogHas(s string, from int64) bool {
	b, err := os.ReadFile(p.Log)
	if err != nil || int64(len(b)) < from {
		return false
	}
	return strings.Contains(string(b[from:]), s)
}

func (p *RepProc) LogSize() int64 {
	st, err := os.Stat(p.Log)
	if err != nil {
		return 0
	}
	return st.Size()
}

func (cl *Cluster) modesOf(st controller.VerifState) map[string]types.Mode {
	m := map[string]types.Mode{}
	for _, r := range st.Replicas {
		m[r.Address] = r.Mode
	}
	return m
}

// IsWedged tells whether the controller stopped giving up its lock.
func (cl *Cluster) IsWedged() bool { return atomic.LoadInt32(&cl.Wedged) != 0 }
