package cluster

import (
	"bytes"
	"fmt"
	"os"
	"path/filepath"
	"strconv"
	"strings"
	"sync"
	"syscall"
	"time"

	"github.com/openebs/jiva/rpc"
	"github.com/openebs/jiva/types"

	"verif/harness/internal/reng"
	"verif/harness/internal/vk"
)

// RunClone is the C19 scenario: a source volume with snapshots, a second
// volume whose only replica is started as a clone of snapshot S.
func RunClone(s *Scen, r *vk.Rand, a, b int, bin, base string) {
	size := int64(r.Range(1, 3)) * 4 << 20
	srcRF := r.Range(1, 2)
	types.RPCReadTimeout, types.RPCWriteTimeout = 4*time.Second, 4*time.Second
	rpc.SetRPCTimeout()
	// the new volume's controller first: REPLICATION_FACTOR in this process must end up as the source's
	dst, err := NewCluster("clone", 1, size, bin, base, a, (b+1)%250, r, s.Res)
	if err != nil {
		s.inconclusive("clone cluster: %v", err)
		return
	}
	defer dst.Stop()
	src, err := NewCluster("src", srcRF, size, bin, base, a, b, r, s.Res)
	if err != nil {
		s.inconclusive("source cluster: %v", err)
		return
	}
	s.Cl = src
	s.Others = []*Cluster{dst}
	defer src.Stop()
	for _, p := range src.Reps {
		src.StartRep(p)
	}
	if !src.WaitRW(srcRF, 120*time.Second) {
		s.inconclusive("source bring-up: %v", src.Modes())
		return
	}
	// source history with 2-5 user snapshots; S at a seeded chain position
	nsnap := r.Range(2, 5)
	pick := r.Intn(nsnap)
	rr := vk.NewRand(r.U64())
	var sImg []uint32
	sName := ""
	for i := 0; i < nsnap; i++ {
		for k, n := 0, r.Range(30, 200); k < n; k++ {
			src.WriteOnce(rr, 0, size/512)
		}
		name := fmt.Sprintf("k%d", i)
		img, ok := s.userSnapshot(name, true)
		if !ok {
			s.inconclusive("source snapshot refused")
			return
		}
		if i == pick {
			sImg, sName = img, name
		}
	}
	for k, n := 0, r.Range(0, 150); k < n; k++ {
		src.WriteOnce(rr, 0, size/512) // the source moves on after S
	}
	if len(src.IOErrs) > 0 || sImg == nil {
		s.inconclusive("source history had I/O errors: %v", src.IOErrs)
		return
	}
	disk := "volume-snap-" + sName + ".img"
	si, err := GetRep(src.Reps[0].IP)
	if err != nil {
		s.inconclusive("source REST: %v", err)
		return
	}
	wantRev := si.Disks[disk].RevisionCounter
	kinds := []string{"none", "kill-clone", "missing-snapshot", "kill-source", "writes-during-copy", "clone-reload-fails"}
	kind := kinds[(s.Case/100+s.Case%100)%len(kinds)]
	srcChain := 0
	for i, n := range si.Chain {
		if n == disk {
			srcChain = len(si.Chain) - i // S and everything below it
		}
	}
	if kind == "clone-reload-fails" && srcChain < 2 {
		kind = "none" // a one-member chain always fits
	}
	s.Cfg = map[string]interface{}{"size": size, "source_rf": srcRF, "snapshots": nsnap, "cloned": sName, "chain_position": pick, "fault": kind}
	src.event("cloning snapshot %s (position %d of %d), fault %s", sName, pick, nsnap, kind)
	cp := dst.Reps[0]
	cp.Extra = []string{"--type", "clone", "--cloneIP", src.CtlIP, "--snapName", sName}
	if kind == "missing-snapshot" {
		cp.Extra[5] = "nosuchsnapshot"
	}
	if kind == "clone-reload-fails" {
		// the copied chain (S and below, plus the head) is one longer than the clone replica may hold: every step of
		// the copy succeeds, the reload of the copied chain is refused - the clone has failed and must say so
		cp.Env = []string{fmt.Sprintf("MAX_CHAIN_LENGTH=%d", srcChain)}
	}
	// sampler at the clone replica: mode RW implies clone status completed
	stop := make(chan struct{})
	var wg sync.WaitGroup
	var bad, early string
	var samples, inProgress, completedSamples int64
	wantChain := 0
	for i, n := range si.Chain {
		if n == disk {
			wantChain = 1 + len(si.Chain) - i
		}
	}
	wg.Add(1)
	go func() {
		defer wg.Done()
		for {
			select {
			case <-stop:
				return
			default:
			}
			if ri, err := GetRep(cp.IP); err == nil {
				samples++
				if ri.CloneStatus == "inProgress" {
					inProgress++
				}
				if ri.ReplicaMode == "RW" && ri.CloneStatus != "completed" && bad == "" {
					bad = fmt.Sprintf("clone replica reports mode RW while its clone status is %q", ri.CloneStatus)
				}
				// "completed" is reported only when everything is in place: not rebuilding any more, the whole chain of S
				// loaded, the revision counter recorded for S
				if ri.CloneStatus == "completed" && early == "" {
					completedSamples++
					got, _ := strconv.ParseInt(ri.RevisionCounter, 10, 64)
					switch {
					case ri.Rebuilding || ri.State == "rebuilding":
						early = fmt.Sprintf("state=%s rebuilding=%v", ri.State, ri.Rebuilding)
					case len(ri.Chain) != wantChain:
						early = fmt.Sprintf("its chain is %v (the chain of %s at the source has %d members below the head)", ri.Chain, sName, wantChain-1)
					case got != wantRev:
						early = fmt.Sprintf("its revision counter is %d (recorded for %s: %d)", got, sName, wantRev)
					}
				}
			}
			time.Sleep(3 * time.Millisecond)
		}
	}()
	var ws *writers
	if kind == "writes-during-copy" {
		ws = startWriters(src, r, 1, time.Millisecond)
	}
	dst.StartRep(cp)
	logFrom := int64(0)
	switch kind {
	case "kill-source":
		deadline := time.Now().Add(60 * time.Second)
		for time.Now().Before(deadline) && !cp.LogHas("Synchronizing", logFrom) && !src.Reps[0].LogHas("Synchronizing", 0) {
			time.Sleep(5 * time.Millisecond)
		}
		time.Sleep(time.Duration(r.Range(0, 40)) * time.Millisecond)
		for _, p := range src.Reps {
			src.Kill(p, false)
		}
		time.Sleep(300 * time.Millisecond)
		for _, p := range src.Reps {
			src.StartRep(p)
		}
		s.Res.Count("clones_with_source_killed", 1)
	case "kill-clone":
		deadline := time.Now().Add(60 * time.Second)
		for time.Now().Before(deadline) && !cp.LogHas("Starting clone process", logFrom) {
			time.Sleep(5 * time.Millisecond)
		}
		agentToo := (s.Case/100)%2 == 1 || r.Bool()
		if agentToo {
			// the whole pod dies while a snapshot's data file is arriving: wait (up to 3 s) until some of it is there
			for i := 0; i < 3000; i++ {
				if partlyReceived(cp.Dir) {
					s.Cfg["killed"] = "while-a-data-file-was-arriving"
					break
				}
				time.Sleep(time.Millisecond)
			}
		} else {
			time.Sleep(time.Duration(r.Range(0, 300)) * time.Millisecond)
		}
		dst.Kill(cp, agentToo) // with or without its sync agent (and the file receiver that agent runs)
		if (s.Case/100)%2 == 1 || r.Bool() {
			// like a pod restart: the new controller has noticed the loss (its status poll fails) and has dropped the
			// replica before the process is back
			for i := 0; i < 1500; i++ {
				if dst.C.TryLock() {
					n := len(dst.C.ListReplicas())
					dst.C.Unlock()
					if n == 0 {
						break
					}
				}
				time.Sleep(10 * time.Millisecond)
			}
			s.Cfg["restart"] = "after-the-controller-dropped-it"
		} else {
			time.Sleep(300 * time.Millisecond)
			s.Cfg["restart"] = "at-once"
		}
		dst.StartRep(cp)
		s.Res.Count("clones_with_clone_killed", 1)
	}
	// completion: the new controller lists the clone RW (bounded)
	done := false
	end := time.Now().Add(240 * time.Second)
	if kind == "missing-snapshot" || kind == "clone-reload-fails" {
		end = time.Now().Add(25 * time.Second)
	}
	if kind == "kill-clone" {
		end = time.Now().Add(90 * time.Second)
	}
	for time.Now().Before(end) {
		if dst.C.TryLock() {
			dst.C.Unlock()
			if dst.CountMode(types.RW) == 1 {
				done = true
				break
			}
		}
		// supervisors
		for _, p := range src.Reps {
			if !p.Alive() {
				src.StartRep(p)
			}
		}
		if !cp.Alive() {
			if ri, err := GetRep(cp.IP); err != nil || ri == nil {
				dst.StartRep(cp)
			}
		}
		time.Sleep(50 * time.Millisecond)
	}
	if ws != nil {
		ws.Stop()
	}
	close(stop)
	wg.Wait()
	s.Res.Count("clone_status_samples", samples)
	s.Res.Count("clone_status_samples_in_progress", inProgress)
	s.Res.Count("clone_status_samples_completed", completedSamples)
	if bad != "" {
		s.Fail([]string{"C19"}, "clone-RW-before-completed", bad)
		return
	}
	if early != "" && kind != "missing-snapshot" && kind != "clone-reload-fails" {
		s.Fail([]string{"C19"}, "clone-status-completed-too-early", "the clone replica reported clonestatus=completed while "+early)
		return
	}
	if kind == "missing-snapshot" || kind == "clone-reload-fails" {
		// a clone that cannot succeed must be reported as an error and must never serve
		ri, _ := GetRep(cp.IP)
		st := ""
		if ri != nil {
			st = ri.CloneStatus
		}
		s.Res.Count("failed_clones_observed", 1)
		s.Res.Count("failed_clones_observed:"+kind, 1)
		why := "the snapshot to clone does not exist at the source"
		if kind == "clone-reload-fails" {
			why = fmt.Sprintf("the clone replica cannot load the copied chain (%d members plus head, MAX_CHAIN_LENGTH=%d)", srcChain, srcChain)
			if !cp.LogHas("too long", 0) && !done && completedSamples == 0 {
				s.Res.Count("clone_reload_failure_not_reached", 1)
			}
		}
		if done || st == "completed" || completedSamples > 0 {
			s.Fail([]string{"C19"}, "failed-clone-served:"+kind, fmt.Sprintf("%s, yet the clone reported status completed (%d samples, now %q) and the new controller lists it RW=%v", why, completedSamples, st, done))
		}
		return
	}
	if !done && kind == "kill-clone" {
		// When the clone dies after the new controller attached it, the controller keeps polling the clone status
		// (holding its lock) and the restarted process waits to be attached again: the volume never comes up.
		// Nothing is served, so this is not a violation of the statement; it is recorded.
		if ri, err := GetRep(cp.IP); err == nil && ri.ReplicaMode != "RW" && ri.CloneStatus != "completed" {
			s.Res.Count("clones_stuck_after_clone_restart", 1)
			return
		}
	}
	if !done {
		// a failed clone is allowed: then it must be reported as an error and serve nothing
		ri, err := GetRep(cp.IP)
		if err == nil && ri.CloneStatus == "completed" {
			s.Fail([]string{"C19"}, "clone-completed-but-not-served", "clone reports completed but the new controller never made it RW within 240 s")
			return
		}
		s.inconclusive("clone (%s) did not finish within 240 s; status %v err %v", kind, ri, err)
		return
	}
	s.Res.Count("clones_completed", 1)
	ri, err := GetRep(cp.IP)
	if err != nil {
		s.inconclusive("clone REST: %v", err)
		return
	}
	if ri.CloneStatus != "completed" {
		s.Fail([]string{"C19"}, "clone-served-without-completed-status", fmt.Sprintf("the new controller lists the clone RW but its status is %q", ri.CloneStatus))
		return
	}
	// image through the new controller == model image of S == revert-on-copy of the source directory
	buf := make([]byte, size)
	if _, err := dst.C.ReadAt(buf, 0); err != nil {
		s.Fail([]string{"C19"}, "clone-unreadable", "read of the cloned volume failed: "+err.Error())
		return
	}
	if d, n := reng.Diff(buf, 0, sImg); d != "" {
		s.Fail([]string{"C19"}, "clone-image-differs-from-snapshot:"+kind, fmt.Sprintf("cloned volume differs from snapshot %s in %d sectors; first: %s", sName, n, d))
		return
	}
	ref, err := SnapshotImage(src.Reps[0].Dir, filepath.Join(base, "cmp"), disk, size)
	if err == nil && !bytes.Equal(ref, buf) {
		off := firstDiff(ref, buf)
		s.Fail([]string{"C19"}, "clone-image-differs-from-source-directory", fmt.Sprintf("cloned volume differs from revert-on-copy of the source at sector %d", off/512))
		return
	}
	s.Res.Count("clone_images_compared", 1)
	if got, _ := strconv.ParseInt(ri.RevisionCounter, 10, 64); got != wantRev {
		s.Fail([]string{"C19", "C10"}, "clone-revision-counter-differs", fmt.Sprintf("clone revision counter %d, the one recorded for snapshot %s on the source is %d", got, sName, wantRev))
		return
	}
	// the clone accepts I/O now
	w2 := vk.NewRand(r.U64())
	dst.Acked = append([]uint32(nil), sImg...)
	for k := 0; k < 20; k++ {
		dst.WriteOnce(w2, 0, size/512)
	}
	if len(dst.IOErrs) > 0 {
		s.Fail([]string{"C19"}, "clone-not-writable", "write to the completed clone failed: "+dst.IOErrs[0])
		return
	}
	if msg, _ := dst.ReadAllPositions(256 * 1024); msg != "" {
		s.Fail([]string{"C19", "C01"}, "clone-readback-differs", msg)
	}
}

// RunWorker runs cluster scenarios.
func RunWorker(prop string, seed uint64, worker, cases int, scratch, out string, extra map[string]string) error {
	reng.QuietLogs()
	reng.RaiseFdLimit()
	reng.StartHolePuncher()
	res := vk.NewResult("cluster")
	bin := extra["bin"]
	propNo := 0
	fmt.Sscanf(prop, "C%d", &propNo)
	for c := 0; c < cases; c++ {
		cs := vk.Mix(seed, prop, fmt.Sprint(worker), fmt.Sprint(c))
		r := vk.NewRand(cs)
		s := &Scen{Prop: prop, Res: res, Seed: cs, Case: worker*100 + c, ForceInterrupt: -1}
		fmt.Sscanf(extra["interrupt"], "%d", &s.ForceInterrupt)
		base := filepath.Join(scratch, fmt.Sprintf("c%d", c))
		a := 100 + (propNo*3+worker)%100
		// (the driver's pid enters the loopback addresses so that two runs of the same property at the same time -
		// a quick and a thorough one, two seeds - do not bind the same addresses)
		b := (c*2 + r.Intn(100)*2 + (os.Getppid()%120)*2) % 240
		if prop == "C19" {
			RunClone(s, r, a, b, bin, base)
		} else if extra["scen"] == "diskfault" {
			a = 100 + (propNo*3+worker+25)%100
			cycles := 1
			fmt.Sscanf(extra["cycles"], "%d", &cycles)
			RunDiskFault(s, r, a, b, bin, base, cycles)
		} else if extra["scen"] == "snaplife" {
			a = 100 + (propNo*3+worker+50)%100
			merges := 1
			fmt.Sscanf(extra["merges"], "%d", &merges)
			RunSnapLife(s, r, a, b, bin, base, merges, extra["restart"] == "1")
		} else {
			cycles := 1
			fmt.Sscanf(extra["cycles"], "%d", &cycles)
			RunRebuild(s, r, a, b, bin, base, cycles)
		}
		res.Cases++
		if s.Cl != nil {
			res.Count("writes_issued", s.Cl.Writes)
			res.Count("writes_acknowledged", s.Cl.AckedN)
			res.Sample(map[string]interface{}{"config": s.Cfg, "events": headStr(s.Cl.Events, 40)}, 2)
			if !s.Dead {
				res.Sig(fmt.Sprintf("%v", s.Cfg) + fmt.Sprint(len(s.Cl.Events)))
			}
		}
		res.WriteFile(out)
	}
	return res.WriteFile(out)
}

func headStr(l []string, n int) []string {
	if len(l) > n {
		return l[:n]
	}
	return l
}

// partlyReceived tells whether some snapshot data file in dir has blocks allocated but fewer than its size needs.
func partlyReceived(dir string) bool {
	ents, _ := os.ReadDir(dir)
	for _, e := range ents {
		n := e.Name()
		if !strings.HasPrefix(n, "volume-snap-") || !strings.HasSuffix(n, ".img") {
			continue
		}
		var st syscall.Stat_t
		if syscall.Stat(filepath.Join(dir, n), &st) == nil && st.Blocks >= 64 {
			return true
		}
	}
	return false
}
