package cluster

import (
	"bytes"
	"encoding/json"
	"fmt"
	"io"
	"net/http"
	"os"
	"path/filepath"
	"strings"
	"sync"
	"time"

	crest "github.com/openebs/jiva/controller/rest"
	"github.com/openebs/jiva/rpc"
	"github.com/openebs/jiva/types"

	"verif/harness/internal/reng"
	"verif/harness/internal/vk"
)

// ctlREST sends one request to the controller's management API.
func (cl *Cluster) ctlREST(method, path, body string) (int, string, error) {
	req, err := http.NewRequest(method, "http://"+cl.CtlIP+":9501"+path, strings.NewReader(body))
	if err != nil {
		return 0, "", err
	}
	req.Header.Set("Content-Type", "application/json")
	c := &http.Client{Timeout: 120 * time.Second}
	resp, err := c.Do(req)
	if err != nil {
		return 0, "", err
	}
	defer resp.Body.Close()
	b, _ := io.ReadAll(io.LimitReader(resp.Body, 1<<16))
	return resp.StatusCode, string(b), nil
}

func (cl *Cluster) volPath(action string) string {
	return "/v1/volumes/" + crest.EncodeID(cl.Name) + "?action=" + action
}

// restSnapshot pauses the writers, takes a user snapshot through the
// controller's REST API and returns the model image at that point.
func (s *Scen) restSnapshot(name string) ([]uint32, bool) {
	cl := s.Cl
	cl.gate.Lock()
	defer cl.gate.Unlock()
	code, body, err := cl.ctlREST("POST", cl.volPath("snapshot"), fmt.Sprintf(`{"name":%q}`, name))
	if err != nil || code != 200 {
		cl.event("REST snapshot %s refused: %d %v %s", name, code, err, firstN(body, 120))
		return nil, false
	}
	cl.event("REST snapshot %s taken", name)
	cl.mmu.Lock()
	defer cl.mmu.Unlock()
	for range cl.Maybe {
		return nil, true
	}
	return append([]uint32(nil), cl.Acked...), true
}

func firstN(s string, n int) string {
	if len(s) > n {
		return s[:n]
	}
	return s
}

// removalEvent is one chain member that vanished from a replica while nobody
// asked that replica to remove anything: the background cleaner's work.
type removalEvent struct {
	rep  int
	name string
	pre  *RepInfo
	ctlC string
}

// chainWatcher samples every replica's REST state and records vanished members.
type chainWatcher struct {
	cl      *Cluster
	stop    chan struct{}
	wg      sync.WaitGroup
	mu      sync.Mutex
	last    map[int]*RepInfo
	events  []removalEvent
	samples int64
}

func startChainWatcher(cl *Cluster) *chainWatcher {
	w := &chainWatcher{cl: cl, stop: make(chan struct{}), last: map[int]*RepInfo{}}
	w.wg.Add(1)
	go func() {
		defer w.wg.Done()
		for {
			select {
			case <-w.stop:
				return
			default:
			}
			for _, p := range cl.Reps {
				ri, err := GetRep(p.IP)
				if err != nil || len(ri.Chain) == 0 {
					continue
				}
				w.mu.Lock()
				w.samples++
				if pre := w.last[p.Idx]; pre != nil {
					now := map[string]bool{}
					for _, n := range ri.Chain {
						now[n] = true
					}
					for _, n := range pre.Chain[1:] { // the head is replaced by snapshots, never "removed"
						if !now[n] {
							cp := ""
							if code, body, err := cl.ctlREST("GET", "/v1/checkpoint", ""); err == nil && code == 200 {
								var o struct {
									Snapshot string `json:"snapshot"`
								}
								json.Unmarshal([]byte(body), &o)
								cp = o.Snapshot
							}
							w.events = append(w.events, removalEvent{rep: p.Idx, name: n, pre: pre, ctlC: cp})
							cl.event("replica %d: chain member %s vanished (background cleaner)", p.Idx, n)
						}
					}
				}
				w.last[p.Idx] = ri
				w.mu.Unlock()
			}
			time.Sleep(150 * time.Millisecond)
		}
	}()
	return w
}

func (w *chainWatcher) Stop() { close(w.stop); w.wg.Wait() }

func (w *chainWatcher) removed(rep int) int {
	w.mu.Lock()
	defer w.mu.Unlock()
	n := 0
	for _, e := range w.events {
		if e.rep == rep {
			n++
		}
	}
	return n
}

// cleanerPredicate checks one background removal against the statement of C11:
// never the head, the latest or the base snapshot, never the checkpoint or
// anything newer, never a user-created snapshot that was not marked removed,
// never a snapshot whose merge target (its parent) is such a snapshot.
func cleanerPredicate(e removalEvent) string {
	ch := e.pre.Chain // head first, base last
	idx, cp := -1, -1
	for i, n := range ch {
		if n == e.name {
			idx = i
		}
		if n == e.pre.Checkpoint {
			cp = i
		}
	}
	d := e.pre.Disks[e.name]
	switch {
	case idx <= 0:
		return "the head"
	case idx == 1:
		return "the latest snapshot"
	case idx == len(ch)-1:
		return "the base snapshot"
	case e.pre.Checkpoint == "" || cp < 0:
		return fmt.Sprintf("a snapshot although the replica had no checkpoint in its chain (checkpoint %q)", e.pre.Checkpoint)
	case idx <= cp:
		return fmt.Sprintf("a snapshot that is the checkpoint or newer (position %d, checkpoint %s at %d)", idx, e.pre.Checkpoint, cp)
	case d.UserCreated && !d.Removed:
		return "a user-created snapshot that was not marked removed"
	}
	if p, ok := e.pre.Disks[d.Parent]; ok && p.UserCreated && !p.Removed {
		return fmt.Sprintf("a snapshot whose merge target %s is a user-created snapshot not marked removed", d.Parent)
	}
	return ""
}

// stableImage reads image `name` from a copy of p's directory and makes sure
// no chain surgery happened on the replica while the copy was taken.
func (s *Scen) stableImage(p *RepProc, name string) ([]byte, error, bool) {
	for try := 0; try < 4; try++ {
		a, err1 := GetRep(p.IP)
		img, err := SnapshotImage(p.Dir, filepath.Join(s.Cl.Base, "cmp"), name, s.Cl.Size)
		b, err2 := GetRep(p.IP)
		if err1 == nil && err2 == nil && fmt.Sprint(a.Chain) == fmt.Sprint(b.Chain) && !p.LogHasOpenCoalesce() {
			return img, err, true
		}
		time.Sleep(700 * time.Millisecond)
	}
	return nil, nil, false
}

// LogHasOpenCoalesce tells whether the replica's log shows a coalesce of the
// cleaner that was not yet followed by the removal (or failure) it leads to.
func (p *RepProc) LogHasOpenCoalesce() bool {
	b, err := os.ReadFile(p.Log)
	if err != nil {
		return false
	}
	i := bytes.LastIndex(b, []byte("Coalescing "))
	if i < 0 {
		return false
	}
	rest := b[i:]
	return !bytes.Contains(rest, []byte("Remove ")) && !bytes.Contains(rest, []byte("Snapshot deletion failed"))
}

// RunSnapLife is the snapshot life-cycle scenario on real processes: user
// snapshots through the controller's REST API under a write stream, user
// deletions (mark removed on every replica), a replica failure + rebuild that
// moves the checkpoint above them, the replicas' own background cleaners
// merging them (60 s ticker), a volume revert through the controller, and a
// full restart. Serves C11 (deletions never change data, cleaner's selection),
// C06 (snapshot images immutable, Controller.Revert), C13 (same content on all
// replicas, checkpoint), C12 (chain survives restart).
func RunSnapLife(s *Scen, r *vk.Rand, a, b int, bin, base string, want int, fullRestart bool) {
	rf := 3
	if r.Chance(30) {
		rf = 2
	}
	size := int64(r.Range(1, 2)) * 4 << 20
	nsnap := r.Range(16, 19)
	s.Cfg = map[string]interface{}{"scenario": "snaplife", "rf": rf, "size": size, "user_snapshots": nsnap, "merges_wanted": want}
	cl, err := NewCluster("vol", rf, size, bin, base, a, b, r, s.Res)
	if err != nil {
		s.inconclusive("cluster: %v", err)
		return
	}
	s.Cl = cl
	defer cl.Stop()
	types.RPCReadTimeout, types.RPCWriteTimeout = 4*time.Second, 4*time.Second
	rpc.SetRPCTimeout()
	for _, p := range cl.Reps {
		if err := cl.StartRep(p); err != nil {
			s.inconclusive("start replica: %v", err)
			return
		}
	}
	if !cl.WaitRW(rf, 120*time.Second) {
		s.inconclusive("bring-up: %v", cl.Modes())
		return
	}
	cl.event("all %d replicas RW", rf)
	rr := vk.NewRand(r.U64())
	images := map[string][]uint32{} // disk name -> model image (nil = unknown)
	order := []string{}
	// a write stream with user snapshots cut into it
	ws := startWriters(cl, r, r.Range(1, 2), 300*time.Microsecond)
	for i := 0; i < nsnap; i++ {
		for k, n := 0, r.Range(20, 120); k < n; k++ {
			cl.WriteOnce(rr, 0, size/512)
		}
		name := fmt.Sprintf("u%d", i)
		img, ok := s.restSnapshot(name)
		if !ok {
			ws.Stop()
			s.Fail([]string{"C13"}, "snapshot-refused-with-all-RW", fmt.Sprintf("REST snapshot %s was refused although all %d replicas are RW", name, rf))
			return
		}
		images["volume-snap-"+name+".img"] = img
		order = append(order, "volume-snap-"+name+".img")
	}
	ws.Stop()
	if len(cl.IOErrs) > 0 {
		s.Fail([]string{"C05", "C02"}, "io-error-with-all-replicas-healthy", "a write failed while all replicas were RW and nothing was injected: "+cl.IOErrs[0])
		return
	}
	s.Res.Count("user_snapshots_taken", int64(nsnap))
	// every snapshot has the model's content on every replica (sampled: first, last and 3 seeded ones)
	pickSet := map[int]bool{0: true, nsnap - 1: true}
	for len(pickSet) < 5 {
		pickSet[r.Intn(nsnap)] = true
	}
	checkImages := func(when string, names []string) bool {
		for _, disk := range names {
			for _, p := range cl.Reps {
				img, err, stable := s.stableImage(p, disk)
				if !stable {
					s.inconclusive("%s: replica %d kept changing its chain while its directory was copied", when, p.Idx)
					return false
				}
				if err != nil {
					s.Fail([]string{"C06", "C11", "C13"}, "snaplife:snapshot-unreadable:"+when, fmt.Sprintf("%s: snapshot %s on replica %d cannot be read by revert-on-copy: %v", when, disk, p.Idx, err))
					return false
				}
				s.Res.Count("snapshot_images_compared", 1)
				if want := images[disk]; want != nil {
					if d, n := reng.Diff(img, 0, want); d != "" {
						s.Fail([]string{"C06", "C11", "C13"}, "snaplife:snapshot-changed:"+when, fmt.Sprintf("%s: user snapshot %s on replica %d differs from the image recorded when it was taken in %d sectors; first: %s", when, disk, p.Idx, n, d))
						return false
					}
				}
			}
		}
		return true
	}
	var sample []string
	for i := range order {
		if pickSet[i] {
			sample = append(sample, order[i])
		}
	}
	if !checkImages("after-creation", sample) {
		return
	}
	// user deletions through the controller: refused for the checkpoint, accepted otherwise (marks removed everywhere)
	st := cl.C.VerifState()
	if st.Checkpoint == "" {
		s.Fail([]string{"C13"}, "no-checkpoint-with-all-RW", "all replicas are RW after bring-up but the controller holds no checkpoint")
		return
	}
	cpShort := strings.TrimSuffix(strings.TrimPrefix(st.Checkpoint, "volume-snap-"), ".img")
	if code, body, err := cl.ctlREST("DELETE", cl.volPath("deleteSnapshot"), fmt.Sprintf(`{"name":%q}`, cpShort)); err == nil && code == 200 {
		s.Fail([]string{"C11"}, "checkpoint-accepted-for-deletion", fmt.Sprintf("DELETE deleteSnapshot of the checkpoint %s answered 200: %s", cpShort, firstN(body, 100)))
		return
	}
	// keep 2-4 user snapshots (always the newest: it is the latest snapshot and protected), delete the others
	keep := map[string]bool{order[nsnap-1]: true}
	for nkeep := r.Range(2, 3); len(keep) < nkeep; {
		keep[order[r.Intn(nsnap)]] = true
	}
	before := map[int]*RepInfo{}
	for _, p := range cl.Reps {
		before[p.Idx], _ = GetRep(p.IP)
	}
	deleted := map[string]bool{}
	for _, disk := range order {
		if keep[disk] {
			continue
		}
		short := strings.TrimSuffix(strings.TrimPrefix(disk, "volume-snap-"), ".img")
		code, body, err := cl.ctlREST("DELETE", cl.volPath("deleteSnapshot"), fmt.Sprintf(`{"name":%q}`, short))
		if err != nil || code != 200 {
			s.inconclusive("user deletion of %s not accepted: %d %v %s", short, code, err, firstN(body, 120))
			return
		}
		deleted[disk] = true
	}
	s.Res.Count("user_deletions", int64(len(deleted)))
	cl.event("deleted %d user snapshots through the controller, kept %d", len(deleted), len(keep))
	for _, p := range cl.Reps {
		ri, err := GetRep(p.IP)
		if err != nil || before[p.Idx] == nil {
			s.inconclusive("replica REST: %v", err)
			return
		}
		if fmt.Sprint(ri.Chain) != fmt.Sprint(before[p.Idx].Chain) {
			s.Fail([]string{"C11", "C12"}, "snaplife:chain-changed-by-mark-removed", fmt.Sprintf("replica %d chain before user deletions %v, after %v", p.Idx, before[p.Idx].Chain, ri.Chain))
			return
		}
		for _, disk := range order {
			d := ri.Disks[disk]
			if d.Removed != deleted[disk] || !d.UserCreated {
				s.Fail([]string{"C11", "C12"}, "snaplife:removed-flag-wrong", fmt.Sprintf("replica %d: snapshot %s deleted=%v but reports removed=%v usercreated=%v", p.Idx, disk, deleted[disk], d.Removed, d.UserCreated))
				return
			}
		}
	}
	var kept []string
	for _, disk := range order {
		if keep[disk] {
			kept = append(kept, disk)
		}
	}
	// one replica fails and is rebuilt under writes: the checkpoint moves above the deleted snapshots
	ws = startWriters(cl, r, 1, 500*time.Microsecond)
	x := cl.Reps[r.Intn(rf)]
	cl.Kill(x, false)
	x.held = true
	for i := 0; i < 1500; i++ {
		if _, ok := cl.Modes()[x.Addr]; !ok {
			break
		}
		time.Sleep(20 * time.Millisecond)
	}
	if st := cl.C.VerifState(); st.Checkpoint != "" && len(st.Replicas) < rf {
		ws.Stop()
		s.Fail([]string{"C13"}, "checkpoint-kept-after-replica-left", fmt.Sprintf("replica %d left but the controller still holds checkpoint %s", x.Idx, st.Checkpoint))
		return
	}
	x.held = false
	cl.StartRep(x)
	if !cl.WaitRW(rf, 240*time.Second) {
		ws.Stop()
		s.inconclusive("not all replicas RW 240 s after the restart: %v", cl.Modes())
		return
	}
	cl.event("replica %d rebuilt; checkpoint now %s", x.Idx, cl.C.VerifState().Checkpoint)
	// the cleaners' turn: watch every replica's chain while the write stream goes on
	cw := startChainWatcher(cl)
	// on one replica (not the rebuilt one) the first merge is cut short: the sfold child its sync agent starts for the
	// cleaner dies at its second write into the parent file (strace follows the agent's children and delivers
	// SIGKILL there). The cleaner has to take that as a failed deletion - the snapshot stays, a later tick merges it
	// again from the start - and not remove a snapshot that was folded only in part.
	var y *RepProc
	for _, p := range cl.Reps {
		if want > 0 && p != x && p.agent != nil && p.agent.Process != nil {
			y = p
			break
		}
	}
	foldKills := make(chan int, 1)
	stopFK := make(chan struct{})
	if y != nil {
		logp := filepath.Join(cl.Base, "foldkill.log")
		when := 1 + (s.Case/100)%2 // the first write (nothing merged yet) or the second (merged in part)
		in, err := attachInjector(y.agent.Process.Pid, "pwrite64", fmt.Sprintf("pwrite64:signal=SIGKILL:when=%d", when), logp)
		if err != nil {
			y = nil
			foldKills <- 0
		} else {
			go func() {
				n := 0
				for end := time.Now().Add(100 * time.Second); time.Now().Before(end); time.Sleep(100 * time.Millisecond) {
					b, _ := os.ReadFile(logp)
					if n = strings.Count(string(b), "killed by SIGKILL"); n > 0 {
						break
					}
					select {
					case <-stopFK:
						end = time.Now()
					default:
					}
				}
				in.detach()
				if keep := os.Getenv("VERIF_DEV_KEEP"); keep != "" {
					b, _ := os.ReadFile(logp)
					os.MkdirAll(keep, 0755)
					os.WriteFile(filepath.Join(keep, "foldkill.log"), b, 0644)
				}
				foldKills <- n
			}()
		}
	} else {
		foldKills <- 0
	}
	deadline := time.Now().Add(time.Duration(70+65*(want-1)) * time.Second)
	if want == 0 {
		deadline = time.Now() // the short form of the scenario: no wait for the cleaners
	}
	if y != nil {
		deadline = deadline.Add(65 * time.Second) // y's first merge is cut short; it merges one tick later
	}
	for time.Now().Before(deadline) {
		done := true
		for _, p := range cl.Reps {
			need := want
			if p == x {
				need = want - 1 // its cleaner's first tick comes 60 s after its promotion
			}
			if cw.removed(p.Idx) < need {
				done = false
			}
		}
		if done {
			break
		}
		if cl.CountMode(types.RW) < rf {
			break // something failed on its own; the checks below still apply to what is there
		}
		time.Sleep(200 * time.Millisecond)
	}
	time.Sleep(1500 * time.Millisecond) // let a removal that was just observed finish on the other replicas' side
	ws.Stop()
	cw.Stop()
	close(stopFK)
	if n := <-foldKills; n > 0 {
		s.Res.Count("merges_cut_short_by_a_killed_fold_process", int64(n))
		cl.event("%d sfold processes of replica %d were killed at a write into the parent file", n, y.Idx)
	}
	cw.mu.Lock()
	evs := append([]removalEvent(nil), cw.events...)
	s.Res.Count("replica_chain_samples", cw.samples)
	cw.mu.Unlock()
	for _, e := range evs {
		s.Res.Count("cleaner_removals_observed", 1)
		if why := cleanerPredicate(e); why != "" {
			s.Fail([]string{"C11"}, "snaplife:cleaner-removed-forbidden:"+strings.SplitN(why, " (", 2)[0], fmt.Sprintf("the background cleaner of replica %d removed %s, which is %s; chain before: %v, replica checkpoint %q, controller checkpoint %q",
				e.rep, e.name, why, e.pre.Chain, e.pre.Checkpoint, e.ctlC))
			return
		}
		if keep[e.name] {
			s.Fail([]string{"C11"}, "snaplife:retained-snapshot-removed", fmt.Sprintf("replica %d lost user snapshot %s, which nobody deleted", e.rep, e.name))
			return
		}
	}
	if len(evs) == 0 {
		s.Res.Count("cases_without_cleaner_activity", 1)
	}
	if len(cl.IOErrs) > 0 && rf == 3 {
		s.Fail([]string{"C05"}, "minority-failure-surfaced:kill", "a write failed around the kill/rebuild of one of three replicas: "+cl.IOErrs[0])
		return
	}
	// deletions changed neither the live volume nor any retained user snapshot, on any replica
	cl.gate.Lock()
	msg, n := cl.ReadAllPositions(256 * 1024)
	cl.gate.Unlock()
	s.Res.Count("round_robin_chunk_reads", int64(n))
	if msg != "" {
		s.Fail([]string{"C11", "C04"}, "snaplife:live-data-changed-after-deletions", "after user deletions, a rebuild and the cleaners' merges: "+msg)
		return
	}
	if !checkImages("after-deletions", kept) {
		return
	}
	for _, p := range cl.Reps {
		img, err, stable := s.stableImage(p, "")
		if !stable || err != nil {
			s.inconclusive("live image of replica %d: stable=%v err=%v", p.Idx, stable, err)
			return
		}
		if m := cl.CheckData(img, 0); m != "" {
			s.Fail([]string{"C11", "C02"}, "snaplife:stored-live-image-differs", fmt.Sprintf("live image stored by replica %d after deletions: %s", p.Idx, m))
			return
		}
		s.Res.Count("stored_live_images_compared", 1)
	}
	s.Res.Count("snaplife_deletion_phases", 1)
	if fullRestart {
		// full restart: chain members and their attributes survive (C12), data reads back (C09)
		pre := map[int]*RepInfo{}
		for _, p := range cl.Reps {
			pre[p.Idx], _ = GetRep(p.IP)
		}
		for _, p := range cl.Reps {
			p.held = true
			cl.Kill(p, false)
		}
		for i := 0; i < 1500 && len(cl.Modes()) > 0; i++ {
			time.Sleep(20 * time.Millisecond)
		}
		for _, p := range cl.Reps {
			p.held = false
			cl.StartRep(p)
			time.Sleep(time.Duration(r.Range(0, 800)) * time.Millisecond)
		}
		if !cl.WaitRW(rf, 240*time.Second) {
			s.inconclusive("full restart: not all RW after 240 s: %v", cl.Modes())
			return
		}
		for _, p := range cl.Reps {
			ri, err := GetRep(p.IP)
			if err != nil || pre[p.Idx] == nil {
				continue
			}
			pos := 0
			for _, n := range pre[p.Idx].Chain[1:] {
				d0 := pre[p.Idx].Disks[n]
				found := false
				for pos < len(ri.Chain) {
					if ri.Chain[pos] == n {
						found = true
						break
					}
					pos++
				}
				if !found {
					if d0.Removed || !d0.UserCreated {
						pos = 0 // may have been merged by a cleaner meanwhile (or replaced by the source's chain)
						continue
					}
					s.Fail([]string{"C12"}, "snaplife:user-snapshot-lost-across-restart", fmt.Sprintf("replica %d: retained user snapshot %s is missing (or out of order) after the restart: before %v, after %v", p.Idx, n, pre[p.Idx].Chain, ri.Chain))
					return
				}
				d1 := ri.Disks[n]
				if d1.UserCreated != d0.UserCreated || d1.Removed != d0.Removed {
					s.Fail([]string{"C12"}, "snaplife:attributes-changed-across-restart", fmt.Sprintf("replica %d: %s before restart usercreated=%v removed=%v, after usercreated=%v removed=%v", p.Idx, n, d0.UserCreated, d0.Removed, d1.UserCreated, d1.Removed))
					return
				}
			}
			s.Res.Count("chains_compared_across_restart", 1)
		}
		cl.gate.Lock()
		msg, _ = cl.ReadAllPositions(256 * 1024)
		cl.gate.Unlock()
		if msg != "" {
			s.Fail([]string{"C09", "C12"}, "acknowledged-write-lost-after-full-restart", "after all replicas stopped and came back: "+msg)
			return
		}
		s.Res.Count("full_restarts", 1)
	}
	// volume revert through the controller to a retained user snapshot
	var cands []string
	for _, k := range kept {
		if images[k] != nil {
			cands = append(cands, k)
		}
	}
	if len(cands) > 0 {
		u := cands[r.Intn(len(cands))]
		short := strings.TrimSuffix(strings.TrimPrefix(u, "volume-snap-"), ".img")
		cl.gate.Lock()
		code, body, err := cl.ctlREST("POST", cl.volPath("revert"), fmt.Sprintf(`{"name":%q}`, short))
		if err != nil || code != 200 {
			cl.gate.Unlock()
			s.Fail([]string{"C06"}, "snaplife:revert-refused", fmt.Sprintf("revert to retained user snapshot %s with all replicas RW answered %d %v %s", short, code, err, firstN(body, 160)))
			return
		}
		cl.event("volume reverted to %s through the controller", short)
		cl.mmu.Lock()
		cl.Acked = append([]uint32(nil), images[u]...)
		cl.Maybe = map[int64][]uint32{}
		cl.mmu.Unlock()
		msg, n := cl.ReadAllPositions(256 * 1024)
		cl.gate.Unlock()
		s.Res.Count("round_robin_chunk_reads", int64(n))
		if msg != "" {
			s.Fail([]string{"C06"}, "snaplife:revert-image-differs", fmt.Sprintf("after Controller.Revert to %s: %s", short, msg))
			return
		}
		s.Res.Count("controller_reverts_checked", 1)
		// (the replicas' chains below u may differ: every replica's cleaner merges marked-removed snapshots on its own schedule)
		for _, p := range cl.Reps {
			ri, err := GetRep(p.IP)
			if err != nil || len(ri.Chain) < 2 {
				s.inconclusive("replica REST after revert: %v", err)
				return
			}
			if ri.Chain[1] != u {
				s.Fail([]string{"C06", "C12"}, "snaplife:revert-chain-wrong", fmt.Sprintf("replica %d chain after revert to %s: %v", p.Idx, u, ri.Chain))
				return
			}
		}
		// the reverted volume takes writes and the snapshot it was reverted to stays what it was
		errsBefore := len(cl.IOErrs)
		for k := 0; k < 150; k++ {
			cl.WriteOnce(rr, 0, size/512)
		}
		if len(cl.IOErrs) > errsBefore {
			s.Fail([]string{"C06", "C05"}, "snaplife:write-failed-after-revert", cl.IOErrs[errsBefore])
			return
		}
		cl.gate.Lock()
		msg, _ = cl.ReadAllPositions(256 * 1024)
		cl.gate.Unlock()
		if msg != "" {
			s.Fail([]string{"C06", "C01"}, "snaplife:readback-differs-after-revert", msg)
			return
		}
		if !checkImages("after-revert", []string{u}) {
			return
		}
	}
}
