package restfuzz

import (
	"fmt"
	"os"
	"path/filepath"
	"strconv"
	"strings"
	"sync/atomic"

	"github.com/gorilla/mux"
	crest "github.com/openebs/jiva/controller/rest"
	"github.com/openebs/jiva/replica"
	rrest "github.com/openebs/jiva/replica/rest"

	"verif/harness/internal/ctlsim"
	"verif/harness/internal/fsx"
	"verif/harness/internal/reng"
	"verif/harness/internal/vk"
)

// genRequests expands the routes of a router into the request matrix.
// valid maps an action name (or the last path element) to a well-formed body;
// ids maps the path element preceding {id} to a valid id.
func genRequests(router *mux.Router, valid map[string]string, ids map[string]string, r *vk.Rand) []Req {
	var out []Req
	for _, rt := range routesOf(router) {
		if strings.HasPrefix(rt.Tmpl, "/debug") || rt.Tmpl == "/metrics" {
			// served by net/http/pprof and promhttp, not by jiva; /debug/pprof/profile blocks for its sampling time by design
			out = append(out, Req{Method: "GET", URL: "/debug/pprof/", Class: "pprof-index", Valid: true}, Req{Method: "GET", URL: "/metrics", Class: "metrics", Valid: true})
			continue
		}
		action := ""
		for _, q := range rt.Queries {
			if strings.HasPrefix(q, "action=") {
				action = strings.TrimPrefix(q, "action=")
			}
		}
		parts := strings.Split(strings.Trim(rt.Tmpl, "/"), "/")
		last := parts[len(parts)-1]
		key := action
		if key == "" {
			key = last
			if last == "{id}" && len(rt.Methods) > 0 {
				key = strings.ToLower(rt.Methods[0])
			}
		}
		vbody := valid[key]
		hasID := strings.Contains(rt.Tmpl, "{id}")
		validID := ""
		if hasID {
			for i, p := range parts {
				if p == "{id}" && i > 0 {
					validID = ids[parts[i-1]]
				}
			}
		}
		mk := func(id string) string {
			u := strings.Replace(rt.Tmpl, "{id}", id, 1)
			if action != "" {
				u += "?action=" + action
			}
			return u
		}
		own := map[string]bool{}
		for _, m := range rt.Methods {
			own[m] = true
		}
		idv := []struct{ id, cls string }{{validID, "valid"}}
		if hasID {
			idv = hostileIDs(validID)
		}
		for _, m := range allMethods {
			for _, id := range idv {
				if own[m] && id.cls == "valid" {
					for _, b := range bodies(vbody, r) {
						out = append(out, Req{Method: m, URL: mk(id.id), Body: b.b, Class: "own-method|" + b.cls + "|id-valid", Valid: b.cls == "valid"})
					}
					continue
				}
				mc := "other-method"
				if own[m] {
					mc = "own-method"
				}
				out = append(out, Req{Method: m, URL: mk(id.id), Body: vbody, Class: mc + "|valid|id-" + id.cls})
				out = append(out, Req{Method: m, URL: mk(id.id), Body: "", Class: mc + "|empty|id-" + id.cls})
			}
		}
		// unknown action on the same path
		if action != "" {
			out = append(out, Req{Method: "POST", URL: strings.Replace(rt.Tmpl, "{id}", validID, 1) + "?action=nosuchaction", Body: vbody, Class: "unknown-action"})
			out = append(out, Req{Method: "POST", URL: strings.Replace(rt.Tmpl, "{id}", validID, 1) + "?action=" + action + "&action=" + action, Body: vbody, Class: "double-action"})
		}
	}
	return out
}

// ---------------------------------------------------------------- controller

var CtlStates = []string{"empty", "registered", "one-rw", "all-rw", "rw+wo", "readonly"}

type CtlTarget struct {
	W      *ctlsim.World
	T      *Target
	Router *mux.Router
	State  string
}

func NewCtlTarget(state string, rf int, r *vk.Rand, res *vk.Result, ipA, ipB int) (*CtlTarget, bool) {
	w := ctlsim.NewWorld("C14", rf, 16*4096, r, res, ipA, ipB)
	ok := true
	switch state {
	case "empty":
	case "registered":
		if rf > 1 {
			w.Register(w.NewFake(1), "closed")
			if rf > 3 {
				w.Register(w.NewFake(1), "closed")
			}
		}
	case "one-rw":
		ok = w.BringUp(1, false)
	case "all-rw":
		ok = w.BringUp(rf, false)
		if ok {
			w.C.Snapshot("s1")
		}
	case "rw+wo":
		n := rf - 1
		if n < 1 {
			n = 1
		}
		ok = w.BringUp(n, rf > 1)
	case "readonly":
		ok = w.BringUp(rf, false)
		if ok {
			fs, _ := w.Attached()
			for i := 0; i < len(fs)-(rf/2+1)+1 && i < len(fs); i++ {
				w.MonitorFail(fs[i], false)
			}
			w.Settle()
		}
	}
	if !ok || w.Dead {
		w.Close()
		return nil, false
	}
	// in every other established state one attached replica's process ends while it serves the volume-delete request
	// (it answered the GET before): the controller has to report that replica's deletion as failed
	if fs, _ := w.Attached(); len(fs) > 0 && r.Intn(2) == 0 {
		atomic.StoreInt32(&fs[r.Intn(len(fs))].DropDelete, 1)
	}
	router := crest.NewRouter(crest.NewServer(w.C))
	t := &Target{Name: "controller", Router: router, Liveness: "/v1/replicas",
		TryLock: w.C.TryLock, Unlock: w.C.Unlock, Digest: w.Describe}
	// follow-up: a mode request for every replica the controller lists now (each listed address is looked up again)
	t.Aftermath = func() []Req {
		var out []Req
		seen := map[string]bool{}
		for _, r := range w.C.VerifState().Replicas {
			if seen[r.Address] || len(out) >= 3 {
				continue
			}
			seen[r.Address] = true
			out = append(out, Req{Method: "PUT", URL: "/v1/replicas/" + b64(r.Address), Body: `{"mode":"ERR"}`, Class: "valid", Valid: true})
		}
		return out
	}
	return &CtlTarget{W: w, T: t, Router: router, State: state}, true
}

func (c *CtlTarget) Requests(r *vk.Rand) []Req {
	w := c.W
	spare := w.NewFake(1)
	repID := b64("tcp://127.250.250.250:9502")
	fs, _ := w.Attached()
	if len(fs) > 0 {
		repID = b64(fs[r.Intn(len(fs))].Addr)
	}
	valid := map[string]string{
		"start":          fmt.Sprintf(`{"replicas":["%s"]}`, spare.Addr),
		"snapshot":       `{"name":"fz1"}`,
		"revert":         `{"name":"s1"}`,
		"resize":         `{"name":"vol1","size":"131072"}`,
		"setlogging":     `{"logtofile":{"enable":false,"maxlogfilesize":1,"retentionperiod":1,"maxbackups":1}}`,
		"deleteSnapshot": `{"name":"s1"}`,
		"register":       fmt.Sprintf(`{"Address":"%s","UUID":"u-1","RevCount":"5","RepType":"Backend","RepState":"closed","UpTime":1}`, spare.IP),
		"replicas":       fmt.Sprintf(`{"address":"%s"}`, spare.Addr),
		"quorumreplicas": fmt.Sprintf(`{"address":"%s"}`, spare.Addr),
		"put":            `{"mode":"ERR"}`,
		"journal":        `{"limit":5}`,
		"timeout":        `{"timeout":"0"}`,
	}
	ids := map[string]string{"volumes": b64("vol1"), "replicas": repID, "schemas": "volume"}
	return genRequests(c.Router, valid, ids, r)
}

func (c *CtlTarget) Close() { c.W.Close() }

// ---------------------------------------------------------------- replica

var RepStates = []string{"initial", "closed", "open", "dirty", "rebuilding", "error"}

type RepTarget struct {
	S      *replica.Server
	Dir    string
	T      *Target
	Router *mux.Router
	State  string
}

// NewRepTarget builds a replica.Server on disk in the requested REST state.
func NewRepTarget(state, dir string, r *vk.Rand) (*RepTarget, error) {
	os.RemoveAll(dir)
	if err := os.MkdirAll(dir, 0700); err != nil {
		return nil, err
	}
	s := replica.NewServer("127.0.0.1:9502", dir, 512, "")
	size := int64(r.Range(8, 24)) * 4096
	prep := func() error {
		if err := s.Create(size); err != nil {
			return err
		}
		if err := s.Open(); err != nil {
			return err
		}
		s.SetReplicaMode("RW")
		// a small chain so that disk names in requests resolve
		for i := 0; i < 3; i++ {
			s.WriteAt(reng.Payload(int64(i)*4096, 4096, uint32(i+1)), int64(i)*4096)
			if err := s.Snapshot(fmt.Sprintf("s%d", i), i == 1, "2026-01-01T00:00:00Z"); err != nil {
				return err
			}
		}
		return nil
	}
	var err error
	switch state {
	case "initial":
	case "closed":
		if err = prep(); err == nil {
			err = s.Close()
		}
	case "open":
		if err = prep(); err == nil {
			if err = s.Close(); err == nil {
				err = s.Open()
				s.SetReplicaMode("RW")
			}
		}
	case "dirty":
		if err = prep(); err == nil {
			_, err = s.WriteAt(reng.Payload(0, 4096, 99), 0)
		}
	case "reverted":
		// s2 becomes an orphan outside the live chain
		if err = prep(); err == nil {
			err = s.Revert("volume-snap-s1.img", "2026-01-01T00:00:00Z")
		}
	case "rebuilding":
		if err = prep(); err == nil {
			err = s.SetRebuilding(true)
		}
	case "error":
		err = os.WriteFile(filepath.Join(dir, "volume.meta"), []byte("{not json"), 0600)
	}
	if err != nil {
		return nil, fmt.Errorf("state %s: %v", state, err)
	}
	router := rrest.NewRouter(rrest.NewServer(s))
	// "no lock is left held" covers both mutexes a request can take: the server's and the one of the Replica object
	tryBoth := func() bool {
		if !s.TryLock() {
			return false
		}
		if rp := s.Replica(); rp != nil {
			if !rp.TryLock() {
				s.Unlock()
				return false
			}
			rp.Unlock()
		}
		return true
	}
	t := &Target{Name: "replica", Router: router, Liveness: "/v1/replicas/1", TryLock: tryBoth, Unlock: s.Unlock,
		Digest: func() string {
			h, _ := fsx.DirHash(dir, map[string]bool{"log.info": true})
			st, info := s.Status()
			return fmt.Sprintf("%s %s %d %s", h, st, info.Size, info.Head)
		}}
	return &RepTarget{S: s, Dir: dir, T: t, Router: router, State: state}, nil
}

func RepValidBodies(size int64) map[string]string {
	return map[string]string{
		"start":              `{"Action":"add"}`,
		"snapshot":           `{"name":"fz1","usercreated":true,"created":"2026-01-01T00:00:00Z"}`,
		"revert":             `{"name":"volume-snap-s1.img","created":"2026-01-01T00:00:00Z"}`,
		"resize":             `{"name":"vol1","size":"` + strconv.FormatInt(size+4096, 10) + `"}`,
		"removedisk":         `{"name":"volume-snap-s1.img"}`,
		"replacedisk":        `{"target":"volume-snap-s1.img","source":"volume-snap-s2.img"}`,
		"prepareremovedisk":  `{"name":"volume-snap-s1.img"}`,
		"setrebuilding":      `{"rebuilding":true}`,
		"setlogging":         `{"logtofile":{"enable":false,"maxlogfilesize":1,"retentionperiod":1,"maxbackups":1}}`,
		"create":             `{"size":"65536"}`,
		"setrevisioncounter": `{"counter":"5"}`,
		"setreplicamode":     `{"mode":"RW"}`,
		"setcheckpoint":      `{"snapshotName":"volume-snap-s2.img"}`,
		"updatecloneinfo":    `{"snapname":"s2","revisioncounter":"3"}`,
	}
}

func (t *RepTarget) Requests(r *vk.Rand) []Req {
	_, info := t.S.Status()
	rq := genRequests(t.Router, RepValidBodies(info.Size), map[string]string{"replicas": "1", "schemas": "replica"}, r)
	// hostile field values for well-formed bodies
	for _, a := range []struct{ action, body string }{
		{"create", `{"size":"-4096"}`}, {"create", `{"size":"9223372036854775807"}`}, {"create", `{"size":"0"}`}, {"create", `{"size":"4097"}`},
		{"resize", `{"size":"-1"}`}, {"resize", `{"size":"1z"}`}, {"resize", `{"size":""}`},
		{"setrevisioncounter", `{"counter":"-5"}`}, {"setrevisioncounter", `{"counter":"abc"}`},
		{"setreplicamode", `{"mode":"ERR"}`}, {"setreplicamode", `{"mode":""}`},
		{"snapshot", `{"name":"../x","created":"now"}`}, {"snapshot", `{"name":"s1","created":"now"}`}, {"snapshot", `{"name":"a/b","created":"now"}`},
		{"revert", `{"name":"volume.meta","created":"now"}`}, {"revert", `{"name":"../x","created":"now"}`},
		{"removedisk", `{"name":"volume-snap-s0.img"}`}, {"removedisk", `{"name":"volume-snap-s1.img.meta"}`}, {"removedisk", `{"name":""}`}, {"removedisk", `{"name":"../x"}`},
		{"replacedisk", `{"target":"","source":""}`}, {"replacedisk", `{"target":"volume-snap-s9.img","source":"volume-snap-s2.img"}`}, {"replacedisk", `{"target":"volume-snap-s2.img","source":"volume-snap-s0.img"}`}, {"replacedisk", `{"target":"volume-snap-s1.img","source":"volume-snap-s1.img"}`},
		{"prepareremovedisk", `{"name":"s1"}`}, {"prepareremovedisk", `{"name":""}`},
		{"updatecloneinfo", `{"snapname":"nope","revisioncounter":"x"}`}, {"setcheckpoint", `{"snapshotName":""}`},
		{"start", `{"Action":""}`}, {"start", `{"Action":"start"}`}, {"start", `{"Action":"start"}`}, {"start", `{"Action":"start"}`}, {"start", `{"Action":"start"}`}, {"start", `{"Action":"start"}`}, {"start", `{"Action":"start"}`},
	} {
		rq = append(rq, Req{Method: "POST", URL: "/v1/replicas/1?action=" + a.action, Body: a.body, Class: "own-method|hostile-field|id-valid"})
	}
	return rq
}
