package restfuzz

import (
	"bytes"
	"encoding/json"
	"fmt"
	"os"
	"path/filepath"
	"strconv"
	"time"

	"github.com/openebs/jiva/replica"

	"verif/harness/internal/reng"
	"verif/harness/internal/vk"
)

// runResizeREST is C16 as the controller sees a replica: the resize action of the replica's REST API in every state
// that offers it. The answer and the replica must agree - a success status means the replica has the requested size
// (the controller raises the volume's size on it), an error status means nothing changed (the controller marks the
// replica failed on it) - a valid growth is accepted by a replica that is open, whether or not it has been written
// since it was opened, shrinking and garbage are refused, and after an accepted growth the old range reads back
// unchanged, the added range reads zeros and takes writes, and the size survives a reopen.
func runResizeREST(res *vk.Result, r *vk.Rand, scratch string, j *os.File, worker, rounds int) {
	fail := func(sig, what string) {
		res.Violate(vk.Violation{Property: "C16", Signature: sig, What: what, Case: worker})
	}
	readAll := func(s *replica.Server, size int64) []byte {
		buf := make([]byte, size)
		if _, err := s.ReadAt(buf, 0); err != nil {
			return nil
		}
		return buf
	}
	for round := 0; round < rounds; round++ {
		for _, state := range []string{"initial", "closed", "open", "dirty", "rebuilding"} {
			for _, kind := range []string{"grow", "grow-human", "shrink", "same", "garbage", "empty", "zero", "negative"} {
				dir := filepath.Join(scratch, "rz")
				rt, err := NewRepTarget(state, dir, r)
				if err != nil {
					res.Inconclusive = append(res.Inconclusive, err.Error())
					continue
				}
				do(rt.T, Req{Method: "GET", URL: "/v1/replicas/1"}, 30*time.Second)
				_, info := rt.S.Status()
				old := info.Size
				var before []byte
				if state == "open" || state == "dirty" {
					before = readAll(rt.S, old)
				}
				want := old + int64(r.Range(1, 24))*4096
				arg := strconv.FormatInt(want, 10)
				valid := true
				switch kind {
				case "grow-human":
					want = (old/(1<<20) + int64(r.Range(1, 3))) << 20
					arg = fmt.Sprintf("%dm", want>>20)
				case "shrink":
					want, valid = old-4096, false
					arg = strconv.FormatInt(want, 10)
				case "same":
					want = old
					arg = strconv.FormatInt(want, 10)
				case "garbage":
					arg, valid = "1z", false
				case "empty":
					arg, valid = "", false
				case "zero":
					arg, valid = "0", false
				case "negative":
					arg, valid = "-4096", false
				}
				digest := rt.T.Digest()
				b, _ := json.Marshal(map[string]string{"k": "REQ rest-resize " + state + " " + kind + " " + arg})
				j.Write(append(b, '\n'))
				body, _ := json.Marshal(map[string]string{"name": "vol1", "size": arg})
				o := do(rt.T, Req{Method: "POST", URL: "/v1/replicas/1?action=resize", Body: string(body)}, 30*time.Second)
				res.Count("rest_resize_cells", 1)
				res.Sig("rest-resize:" + state + ":" + kind + ":" + fmt.Sprint(o.Status/100))
				_, info = rt.S.Status()
				now := info.Size
				ok2xx := o.Status >= 200 && o.Status < 300
				at := fmt.Sprintf("resize to %q (%s) in state %s, answered %d %s", arg, kind, state, o.Status, firstLines(o.Body, 1))
				switch {
				case o.Panic != "" || o.Hung:
					fail("rest-resize:"+state+":"+kind+":panic-or-hang", fmt.Sprintf("%s: panic=%q hung=%v", at, firstLines(o.Panic, 1), o.Hung))
				case ok2xx && !valid:
					fail("rest-resize:"+state+":"+kind+":invalid-size-answered-success", fmt.Sprintf("%s; replica size %d -> %d", at, old, now))
				case ok2xx && now != want:
					fail("rest-resize:"+state+":"+kind+":success-status-without-the-size", fmt.Sprintf("%s, but the replica's size is %d (was %d, requested %d): the controller would raise the volume's size over a replica that did not follow", at, now, old, want))
				case !ok2xx && (now != old || rt.T.Digest() != digest):
					fail("rest-resize:"+state+":"+kind+":error-status-with-effect", fmt.Sprintf("%s, but the replica changed (size %d -> %d)", at, old, now))
				case !ok2xx && valid && (state == "open" || state == "dirty"):
					fail("rest-resize:"+state+":"+kind+":valid-growth-refused", fmt.Sprintf("%s: a replica that is open must accept a growth (the controller marks a replica that refuses as failed)", at))
				}
				if ok2xx && valid && now == want && before != nil && want > old {
					res.Count("rest_resizes_accepted", 1)
					after := readAll(rt.S, want)
					switch {
					case after == nil:
						fail("rest-resize:"+state+":grown-volume-unreadable", at+": the grown volume cannot be read in full")
					case !bytes.Equal(after[:old], before):
						fail("rest-resize:"+state+":old-range-changed", at+": the old range reads back differently after the growth")
					case !bytes.Equal(after[old:], make([]byte, want-old)):
						fail("rest-resize:"+state+":added-range-not-zero", at+": the added range does not read zeros")
					}
					rt.S.SetReplicaMode("RW")
					p := reng.Payload(want-4096, 4096, 777)
					if _, err := rt.S.WriteAt(p, want-4096); err != nil {
						fail("rest-resize:"+state+":added-range-not-writable", fmt.Sprintf("%s: write of the last block of the grown volume: %v", at, err))
					}
					rt.S.Close()
					s2 := replica.NewServer("127.0.0.1:9502", dir, 512, "")
					if err := s2.Open(); err != nil {
						fail("rest-resize:"+state+":reopen-fails", fmt.Sprintf("%s: reopen after the growth: %v", at, err))
					} else {
						if _, i2 := s2.Status(); i2.Size != want {
							fail("rest-resize:"+state+":size-lost-on-reopen", fmt.Sprintf("%s: after a reopen the replica reports size %d", at, i2.Size))
						} else if got := readAll(s2, want); got == nil || !bytes.Equal(got[:old], before) || !bytes.Equal(got[want-4096:], p) {
							fail("rest-resize:"+state+":data-differs-after-reopen", at+": data differs after the reopen")
						}
						s2.Close()
					}
				}
				os.RemoveAll(dir)
			}
		}
		res.Cases++
	}
	res.Sample(map[string]interface{}{"matrix": "5 states x 8 size arguments through POST /v1/replicas/1?action=resize"}, 1)
}
