package restfuzz

import (
	"encoding/json"
	"fmt"
	"net"
	"net/http"
	"os"
	"path/filepath"
	"sort"
	"strings"
	"time"

	"github.com/openebs/jiva/backend/remote"
	"github.com/openebs/jiva/replica"
	rrest "github.com/openebs/jiva/replica/rest"
	"github.com/openebs/jiva/rpc"

	"verif/harness/internal/fsx"
	"verif/harness/internal/reng"
	"verif/harness/internal/vk"
)

// RunWorker runs a share of the request matrix (C14) or the action matrix (C17).
func RunWorker(prop string, seed uint64, worker, cases int, scratch, out string, extra map[string]string) error {
	reng.QuietLogs()
	reng.RaiseFdLimit()
	reng.StartHolePuncher()
	res := vk.NewResult("restfuzz")
	jpath := out + ".journal"
	j, _ := os.Create(jpath)
	defer j.Close()
	r := vk.NewRand(vk.Mix(seed, prop, fmt.Sprint(worker)))
	if prop == "C17" {
		runActionMatrix(res, r, scratch, j, worker, cases)
		runAttach(res, r, scratch, j, worker)
		os.Remove(jpath)
		return res.WriteFile(out)
	}
	if prop == "C16" {
		runResizeREST(res, r, scratch, j, worker, cases)
		os.Remove(jpath)
		return res.WriteFile(out)
	}
	if prop == "C14" && worker == 5 {
		runCloneInfoOnLiveChain(res, r, scratch, j, worker)
		res.WriteFile(out)
	}
	if prop == "C14" && worker >= 1 && worker <= 4 {
		// four workers start with their share of the twin comparison of answers and engine verdicts
		runStatusAgreement(res, seed, scratch, j, worker)
		res.WriteFile(out)
	}
	nworkers := 16
	fmt.Sscanf(extra["workers"], "%d", &nworkers)
	full := extra["tier"] == "thorough"
	// controller share
	combos := []struct{ target, state string }{}
	for _, s := range CtlStates {
		combos = append(combos, struct{ target, state string }{"controller", s})
	}
	for _, s := range append(append([]string(nil), RepStates...), "reverted") {
		combos = append(combos, struct{ target, state string }{"replica", s})
	}
	for ci, cb := range combos {
		rf := (worker+ci)%5 + 1
		var reqs []Req
		mk := func() (*Target, func(), bool) {
			if cb.target == "controller" {
				ct, ok := NewCtlTarget(cb.state, rf, r, res, 200+(worker%50), (os.Getpid()*3+ci)%250)
				if !ok {
					return nil, nil, false
				}
				if reqs == nil {
					reqs = ct.Requests(r)
				}
				return ct.T, ct.Close, true
			}
			dir := filepath.Join(scratch, fmt.Sprintf("rep-%s", cb.state))
			rt, err := NewRepTarget(cb.state, dir, r)
			if err != nil {
				return nil, nil, false
			}
			if reqs == nil {
				reqs = rt.Requests(r)
			}
			return rt.T, func() { os.RemoveAll(dir) }, true
		}
		t, closer, ok := mk()
		if !ok {
			res.Inconclusive = append(res.Inconclusive, fmt.Sprintf("state %s/%s could not be established", cb.target, cb.state))
			continue
		}
		res.Count("route_state_combinations", 1)
		base := t.Digest()
		sess := &Session{T: t, Res: res, Prop: prop, Journal: j, Seed: seed, Case: worker*100 + ci, State: fmt.Sprintf("%s/%s/rf%d", cb.target, cb.state, rf)}
		// this worker's share of the matrix
		var mine []Req
		for i, rq := range reqs {
			if full || strings.Contains(rq.Class, "hostile-field") {
				if i%nworkers == worker%nworkers {
					mine = append(mine, rq)
				}
			} else if r.Intn(len(reqs)) < cases {
				mine = append(mine, rq)
			}
		}
		res.Count("matrix_size_"+cb.target, int64(len(reqs)))
		sinceFresh := 0
		for _, rq := range mine {
			if sess.Dead {
				break
			}
			o := sess.Send(rq)
			res.Sig(rq.Method + " " + routeOf(rq.URL) + " " + rq.Class + " " + cb.state + fmt.Sprint(o.Status/100))
			sinceFresh++
			// every (state, request) pair runs on a freshly established state
			if d := t.Digest(); d != base || sinceFresh > 60 {
				res.Count("state_rebuilds", 1)
				closer()
				t, closer, ok = mk()
				if !ok {
					break
				}
				sess.T = t
				base = t.Digest()
				sinceFresh = 0
			}
		}
		res.Sample(map[string]interface{}{"state": sess.State, "requests": headReqs(sess.Log, 8)}, 3)
		// a random sequence that lets the state drift
		if !sess.Dead && ok {
			for k := 0; k < 50 && !sess.Dead; k++ {
				sess.Send(reqs[r.Intn(len(reqs))])
			}
			res.Count("drift_sequences", 1)
		}
		// every action in every replica mode: the refusal branches of the mode-gated operations (a replica that is
		// rebuilding or was marked failed refuses chain surgery, counter updates and snapshots) are reached only
		// after a mode change, which the single-request matrix never makes
		if !sess.Dead && ok && cb.target == "replica" && (cb.state == "open" || cb.state == "dirty") {
			for _, mode := range []string{"WO", "ERR"} {
				closer()
				if t, closer, ok = mk(); !ok {
					break
				}
				sess.T = t
				sess.Send(Req{Method: "POST", URL: "/v1/replicas/1?action=setreplicamode", Body: `{"mode":"` + mode + `"}`, Class: "mode-matrix", Valid: true})
				for _, rq := range reqs {
					if sess.Dead {
						break
					}
					// (create and updatecloneinfo are not mode-gated; updatecloneinfo on a replica that has a chain was
					// finding F24 and has its own directed history)
					if rq.Valid && rq.Method == "POST" && strings.HasPrefix(rq.URL, "/v1/replicas/1?action=") && !strings.HasSuffix(rq.URL, "=setreplicamode") && !strings.HasSuffix(rq.URL, "=close") &&
						!strings.HasSuffix(rq.URL, "=updatecloneinfo") && !strings.HasSuffix(rq.URL, "=create") {
						rq.Class = "mode-matrix"
						sess.Send(rq)
						res.Count("requests_in_a_non_RW_mode", 1)
					}
				}
			}
			if ok {
				base = t.Digest()
			}
		}
		// convoys: a state-changing request and a second request queued behind the target's mutex, then released in
		// that order - the second one runs in a state that changed after it passed its pre-lock checks
		if !sess.Dead && ok {
			closer()
			if t, closer, ok = mk(); ok {
				sess.T = t
				base = t.Digest()
				var firsts, seconds []Req
				for _, rq := range reqs {
					if !rq.Valid || rq.Class == "pprof-index" {
						continue
					}
					seconds = append(seconds, rq)
					if rq.Method != "GET" && rq.Method != "HEAD" {
						firsts = append(firsts, rq)
					}
				}
				n := 0
				for ai, a := range firsts {
					for bi, b := range seconds {
						if (ai*len(seconds)+bi)%nworkers != worker%nworkers || sess.Dead || !ok {
							continue
						}
						same := a.Method == b.Method && a.URL == b.URL && a.Body == b.Body // the same request submitted twice
						if !full && !destroyer(a) && !same && r.Intn(100) >= 30 {
							continue
						}
						sess.Convoy(a, b)
						n++
						if d := t.Digest(); d != base {
							res.Count("state_rebuilds", 1)
							closer()
							if t, closer, ok = mk(); !ok {
								break
							}
							sess.T = t
							base = t.Digest()
						}
					}
				}
				res.Count("convoy_pairs_"+cb.target, int64(n))
			}
		}
		// concurrent requests: well-formed ones and reads, from several goroutines
		if !sess.Dead && ok {
			var pool []Req
			for _, rq := range reqs {
				if (rq.Valid || rq.Method == "GET") && rq.Class != "pprof-index" {
					pool = append(pool, rq)
				}
			}
			sess.Burst(pool, 8, 25, r)
		}
		if closer != nil {
			closer()
		}
		res.Cases++
		res.WriteFile(out)
	}
	os.Remove(jpath)
	return res.WriteFile(out)
}

func headReqs(l []Req, n int) []Req {
	if len(l) > n {
		return l[:n]
	}
	return l
}

// runCloneInfoOnLiveChain is the directed history behind finding F24 (repaired: the call is now refused when the head
// already has another parent): the action table offers updatecloneinfo in every open state, and the engine took the
// snapshot name it was given as the new parent of the head without looking at the chain. After a revert to s1 the snapshot s2 lies outside the live chain; updatecloneinfo(s2) makes
// it the head's parent, the next snapshot inherits that parent, and removing s1 then dereferences the missing
// member inside the handler (net/http recovers; the chain can no longer be listed).
func runCloneInfoOnLiveChain(res *vk.Result, r *vk.Rand, scratch string, j *os.File, worker int) {
	rt, err := NewRepTarget("open", filepath.Join(scratch, "f24"), r)
	if err != nil {
		res.Inconclusive = append(res.Inconclusive, err.Error())
		return
	}
	defer os.RemoveAll(rt.Dir)
	b, _ := json.Marshal(map[string]string{"k": "REQ clone-info-on-live-chain"})
	j.Write(append(b, '\n'))
	var last Outcome
	for _, st := range []struct{ action, body string }{
		{"revert", `{"name":"volume-snap-s1.img","created":"2026-01-01T00:00:00Z"}`},
		{"updatecloneinfo", `{"snapname":"s2","revisioncounter":"3"}`},
		{"snapshot", `{"name":"fz1","usercreated":true,"created":"2026-01-01T00:00:00Z"}`},
		{"removedisk", `{"name":"volume-snap-s1.img"}`},
	} {
		last = do(rt.T, Req{Method: "POST", URL: "/v1/replicas/1?action=" + st.action, Body: st.body}, 30*time.Second)
	}
	res.Count("clone_info_on_live_chain_histories", 1)
	if last.Panic != "" {
		res.Violate(vk.Violation{Property: "C14", Signature: "clone-info-on-live-chain:removedisk-handler-panic",
			What: "revert to s1, updatecloneinfo naming s2 (outside the live chain), snapshot, removedisk s1: the handler panicked: " + firstLines(last.Panic, 1), Case: worker})
	}
}

// ---------------------------------------------------------------- C17: action table and attach rule

// actionTable is a transcription of replica/rest.NewReplica at the pinned
// commit: which REST actions a replica offers in which state. It is the
// specification of "valid in the replica's current state".
var actionTable = map[string][]string{
	"initial":    {"start", "create", "resize", "updatecloneinfo"},
	"open":       {"start", "resize", "close", "setrebuilding", "setlogging", "snapshot", "reload", "removedisk", "replacedisk", "revert", "prepareremovedisk", "setreplicamode", "setrevisioncounter", "updatecloneinfo", "setcheckpoint"},
	"closed":     {"start", "open", "resize", "removedisk", "replacedisk", "revert", "updatecloneinfo", "prepareremovedisk"},
	"dirty":      {"start", "resize", "setrebuilding", "setlogging", "close", "snapshot", "reload", "removedisk", "replacedisk", "revert", "setreplicamode", "prepareremovedisk", "updatecloneinfo", "setcheckpoint"},
	"rebuilding": {"setrebuilding", "setlogging", "close", "reload", "setreplicamode", "setrevisioncounter", "updatecloneinfo", "setcheckpoint"},
	"error":      {},
}

var allActions = []string{"start", "reload", "updatecloneinfo", "snapshot", "open", "close", "resize", "removedisk", "replacedisk", "setrebuilding", "setlogging", "create", "revert", "prepareremovedisk", "setrevisioncounter", "setreplicamode", "setcheckpoint"}

func runActionMatrix(res *vk.Result, r *vk.Rand, scratch string, j *os.File, worker, rounds int) {
	fail := func(sig, what string, wit interface{}) {
		res.Violate(vk.Violation{Property: "C17", Signature: sig, What: what, Case: worker, Witness: wit})
	}
	for round := 0; round < rounds; round++ {
		for _, state := range RepStates {
			allowed := map[string]bool{}
			for _, a := range actionTable[state] {
				allowed[a] = true
			}
			for _, action := range allActions {
				dir := filepath.Join(scratch, "mx")
				rt, err := NewRepTarget(state, dir, r)
				if err != nil {
					res.Inconclusive = append(res.Inconclusive, err.Error())
					continue
				}
				_, info := rt.S.Status()
				body := RepValidBodies(info.Size)[action]
				// any request, a GET included, initialises the revision counter file of a fresh directory:
				// take the baseline after one GET so that only the action's own effects are measured
				do(rt.T, Req{Method: "GET", URL: "/v1/replicas/1"}, 30*time.Second)
				before := rt.T.Digest()
				var chainBefore []string
				if rp := rt.S.Replica(); rp != nil {
					chainBefore, _ = rp.Chain()
				}
				b, _ := json.Marshal(map[string]string{"k": "REQ action-matrix " + state + " " + action})
				j.Write(append(b, '\n'))
				o := do(rt.T, Req{Method: "POST", URL: "/v1/replicas/1?action=" + action, Body: body}, 30*time.Second)
				res.Count("action_matrix_cells", 1)
				res.Sig(state + ":" + action + ":" + fmt.Sprint(o.Status == 404))
				switch {
				case o.Panic != "" || o.Hung:
					fail("matrix:"+state+":"+action+":panic-or-hang", fmt.Sprintf("action %s in state %s: panic=%q hung=%v", action, state, firstLines(o.Panic, 1), o.Hung), nil)
				case allowed[action] && o.Status == 404:
					fail("matrix:"+state+":"+action+":valid-action-refused", fmt.Sprintf("action %s is valid in state %s but was answered 404", action, state), nil)
				case !allowed[action] && o.Status != 404:
					fail("matrix:"+state+":"+action+":invalid-action-not-refused", fmt.Sprintf("action %s is not valid in state %s but was answered %d: %s", action, state, o.Status, o.Body), nil)
				case !allowed[action]:
					after := rt.T.Digest()
					var chainAfter []string
					if rp := rt.S.Replica(); rp != nil {
						chainAfter, _ = rp.Chain()
					}
					if after != before || strings.Join(chainBefore, ",") != strings.Join(chainAfter, ",") {
						fail("matrix:"+state+":"+action+":refused-with-side-effects", fmt.Sprintf("action %s refused (404) in state %s but directory/status/chain changed", action, state), nil)
					}
				}
				os.RemoveAll(dir)
			}
		}
		res.Cases++
	}
	res.Sample(map[string]interface{}{"matrix": "6 states x 17 actions", "table": actionTable}, 1)
}

// runAttach checks the attach rule with the real remote.Factory against a
// real replica REST server and data port: attach only from closed, never twice.
func runAttach(res *vk.Result, r *vk.Rand, scratch string, j *os.File, worker int) {
	fail := func(sig, what string) {
		res.Violate(vk.Violation{Property: "C17", Signature: sig, What: what, Case: worker})
	}
	ip := fmt.Sprintf("127.%d.%d.%d", 230+worker%20, (os.Getpid()/250)%250+1, os.Getpid()%250+1)
	dir := filepath.Join(scratch, "attach")
	os.RemoveAll(dir)
	os.MkdirAll(dir, 0700)
	s := replica.NewServer(ip+":9502", dir, 512, "")
	if err := s.Create(64 * 4096); err != nil {
		res.Inconclusive = append(res.Inconclusive, "attach: create: "+err.Error())
		return
	}
	hl, err := net.Listen("tcp", ip+":9502")
	if err != nil {
		res.Inconclusive = append(res.Inconclusive, "attach: listen: "+err.Error())
		return
	}
	defer hl.Close()
	srv := &http.Server{Handler: rrest.NewRouter(rrest.NewServer(s))}
	go srv.Serve(hl)
	defer srv.Close()
	dl, err := net.Listen("tcp", ip+":9503")
	if err != nil {
		res.Inconclusive = append(res.Inconclusive, "attach: listen data: "+err.Error())
		return
	}
	defer dl.Close()
	go func() {
		for {
			c, err := dl.Accept()
			if err != nil {
				return
			}
			go rpc.NewServer(c, s).Handle()
		}
	}()
	fac := remote.New()
	addr := ip + ":9502" // backend/dynamic strips the tcp:// scheme before calling the remote factory
	for round := 0; round < 4; round++ {
		b, _ := json.Marshal(map[string]string{"k": fmt.Sprintf("REQ attach round %d", round)})
		j.Write(append(b, '\n'))
		st, _ := s.Status()
		be, err := fac.Create(addr)
		res.Count("attach_attempts", 1)
		if err != nil {
			fail("attach:closed-replica-refused", fmt.Sprintf("Create on a %s replica failed: %v", st, err))
			return
		}
		st2, _ := s.Status()
		if st2 == replica.Closed || s.Replica() == nil {
			fail("attach:not-opened", "Create succeeded but the replica is still closed")
			return
		}
		h1, _ := fsx.DirHash(dir, map[string]bool{"volume.meta": true})
		// while attached (open / dirty / rebuilding), further attach attempts are refused without effect
		for k := 0; k < 3; k++ {
			if k == 1 {
				s.WriteAt(reng.Payload(0, 4096, 7), 0)
				h1, _ = fsx.DirHash(dir, map[string]bool{"volume.meta": true})
			}
			if k == 2 {
				s.SetRebuilding(true)
			}
			rep := s.Replica()
			if b2, err := fac.Create(addr); err == nil {
				fail("attach:attached-twice", fmt.Sprintf("a second Create succeeded while the replica is %v", func() replica.State { x, _ := s.Status(); return x }()))
				b2.Close()
				return
			}
			res.Count("attach_refusals_while_attached", 1)
			if s.Replica() != rep {
				fail("attach:refused-but-reopened", "a refused Create replaced the open replica instance")
				return
			}
			if h2, _ := fsx.DirHash(dir, map[string]bool{"volume.meta": true}); h2 != h1 {
				fail("attach:refused-with-side-effects", "a refused Create changed the replica directory")
				return
			}
		}
		s.SetRebuilding(false)
		be.Close()
		if err := s.Close(); err != nil {
			fail("attach:close-failed", err.Error())
			return
		}
	}
	// concurrent attach attempts on a closed replica: at most one may succeed
	for round := 0; round < 6; round++ {
		b, _ := json.Marshal(map[string]string{"k": fmt.Sprintf("REQ concurrent attach round %d", round)})
		j.Write(append(b, '\n'))
		n := 4 + round%5
		type resT struct {
			be  interface{ Close() error }
			err error
		}
		ch := make(chan resT, n)
		start := make(chan struct{})
		for g := 0; g < n; g++ {
			go func() {
				<-start
				be, err := fac.Create(addr)
				if err != nil {
					ch <- resT{nil, err}
					return
				}
				ch <- resT{be, nil}
			}()
		}
		close(start)
		okc := 0
		var bes []interface{ Close() error }
		for g := 0; g < n; g++ {
			x := <-ch
			if x.err == nil {
				okc++
				bes = append(bes, x.be)
			}
		}
		res.Count("concurrent_attach_rounds", 1)
		if okc > 1 {
			fail("attach:attached-twice-concurrently", fmt.Sprintf("%d of %d concurrent Create calls on a closed replica succeeded", okc, n))
			return
		}
		if okc == 0 {
			res.Count("concurrent_attach_rounds_without_winner", 1)
		}
		for _, be := range bes {
			be.Close()
		}
		if s.Replica() != nil {
			if err := s.Close(); err != nil {
				fail("attach:close-failed", err.Error())
				return
			}
		}
	}
	names := []string{}
	for k := range actionTable {
		names = append(names, k)
	}
	sort.Strings(names)
	res.Cases++
}

// destroyer tells whether a request, when it succeeds, takes the state away that other requests checked for
// (closes or deletes the replica, reverts or reloads it, shuts the volume down, removes a replica).
func destroyer(rq Req) bool {
	if rq.Method == "DELETE" {
		return true
	}
	for _, a := range []string{"action=close", "action=revert", "action=reload", "action=shutdown", "/v1/delete", "action=open", "action=create"} {
		if strings.Contains(rq.URL, a) {
			return true
		}
	}
	return false
}
