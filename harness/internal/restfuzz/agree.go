package restfuzz

import (
	"encoding/json"
	"fmt"
	"os"
	"path/filepath"
	"strconv"
	"strings"
	"time"

	"github.com/openebs/jiva/replica"
	rrest "github.com/openebs/jiva/replica/rest"

	"verif/harness/internal/vk"
)

// direct performs what the REST handler of action does with body on the engine itself and returns the engine's
// verdict; known=false when the body does not reach the engine the way the handler reads it (not JSON, a field
// the handler refuses before the engine is asked).
func direct(s *replica.Server, action, body string) (err error, known bool) {
	defer func() {
		if p := recover(); p != nil {
			err, known = nil, false
		}
	}()
	dec := func(into interface{}) bool {
		return body == "" || json.Unmarshal([]byte(body), into) == nil
	}
	switch action {
	case "snapshot":
		var in rrest.SnapshotInput
		if !dec(&in) {
			return nil, false
		}
		if in.Name == "" || in.Created == "" {
			return fmt.Errorf("refused by the handler"), true
		}
		return s.Snapshot(in.Name, in.UserCreated, in.Created), true
	case "revert":
		var in rrest.RevertInput
		if !dec(&in) {
			return nil, false
		}
		if in.Name == "" || in.Created == "" {
			return fmt.Errorf("refused by the handler"), true
		}
		return s.Revert(in.Name, in.Created), true
	case "resize":
		var in rrest.ResizeInput
		if !dec(&in) {
			return nil, false
		}
		return s.Resize(in.Size), true
	case "removedisk":
		var in rrest.RemoveDiskInput
		if !dec(&in) {
			return nil, false
		}
		return s.RemoveDiffDisk(in.Name), true
	case "replacedisk":
		var in rrest.ReplaceDiskInput
		if !dec(&in) {
			return nil, false
		}
		return s.ReplaceDisk(in.Target, in.Source), true
	case "prepareremovedisk":
		var in rrest.PrepareRemoveDiskInput
		if !dec(&in) {
			return nil, false
		}
		_, e := s.PrepareRemoveDisk(in.Name)
		return e, true
	case "setrebuilding":
		var in rrest.RebuildingInput
		if !dec(&in) {
			return nil, false
		}
		return s.SetRebuilding(in.Rebuilding), true
	case "setrevisioncounter":
		var in rrest.RevisionCounter
		if !dec(&in) {
			return nil, false
		}
		c, _ := strconv.ParseInt(in.Counter, 10, 64)
		return s.SetRevisionCounter(c), true
	case "setreplicamode":
		var in rrest.ReplicaMode
		if !dec(&in) {
			return nil, false
		}
		return s.SetReplicaMode(in.Mode), true
	case "setcheckpoint":
		var in rrest.Checkpoint
		if !dec(&in) {
			return nil, false
		}
		return s.SetCheckpoint(in.SnapshotName), true
	case "updatecloneinfo":
		var in rrest.CloneUpdateInput
		if !dec(&in) {
			return nil, false
		}
		return s.UpdateCloneInfo(in.SnapName, in.RevisionCount), true
	case "reload":
		return s.Reload(), true
	case "close":
		return s.Close(), true
	case "open":
		return s.Open(), true
	}
	return nil, false
}

// runStatusAgreement: "a request the replica cannot perform is answered with an error status" (C14) decided by a
// twin. Every offered action with a valid or hostile body is sent through the REST router to a replica in the given
// state, and the same engine call is made directly on a twin built the same way (same PRNG draw, same history). The
// answer must be an error status exactly when the engine returned an error: the controller (backend/remote
// doAction, replica/client post) judges every management step of a promotion, a snapshot, a resize or a revert by
// that status alone.
func runStatusAgreement(res *vk.Result, seed uint64, scratch string, j *os.File, worker int) {
	// the states are spread over workers 1-4 (building a closed or reopened replica waits a second for the hole
	// puncher's drain, twice per cell)
	share := map[int][]string{1: {"closed"}, 2: {"open"}, 3: {"dirty", "rebuilding"}, 4: {"reverted"}}
	for _, state := range share[worker] {
		probe, err := NewRepTarget(state, filepath.Join(scratch, "agA"), vk.NewRand(vk.Mix(seed, "agree", state)))
		if err != nil {
			res.Inconclusive = append(res.Inconclusive, err.Error())
			continue
		}
		reqs := probe.Requests(vk.NewRand(vk.Mix(seed, "agree-reqs", state)))
		_, info := probe.S.Status()
		os.RemoveAll(probe.Dir)
		seen := map[string]bool{}
		for _, rq := range reqs {
			const pre = "/v1/replicas/1?action="
			if rq.Method != "POST" || !strings.HasPrefix(rq.URL, pre) {
				continue
			}
			action := rq.URL[len(pre):]
			key := action + "\x00" + rq.Body
			if seen[key] || !(rq.Valid || rq.Class == "own-method|hostile-field|id-valid") {
				continue
			}
			seen[key] = true
			_ = info
			a, errA := NewRepTarget(state, filepath.Join(scratch, "agA"), vk.NewRand(vk.Mix(seed, "agree", state)))
			b, errB := NewRepTarget(state, filepath.Join(scratch, "agB"), vk.NewRand(vk.Mix(seed, "agree", state)))
			if errA != nil || errB != nil {
				continue
			}
			jb, _ := json.Marshal(map[string]string{"k": "REQ status-agreement " + state + " " + action, "body": rq.Body})
			j.Write(append(jb, '\n'))
			o := do(a.T, Req{Method: "POST", URL: rq.URL, Body: rq.Body}, 30*time.Second)
			if o.Status != 404 && o.Panic == "" && !o.Hung { // 404: not offered in this state (C17's table)
				if derr, known := direct(b.S, action, rq.Body); known {
					res.Count("status_agreement_cells", 1)
					res.Sig("agree:" + state + ":" + action + ":" + fmt.Sprint(derr != nil))
					if derr != nil {
						res.Count("status_agreement_cells_engine_refused", 1)
					}
					switch {
					case derr != nil && o.Status < 400:
						res.Violate(vk.Violation{Property: "C14", Signature: "status-agreement:" + state + ":" + action + ":engine-error-answered-success",
							What: fmt.Sprintf("POST %s %s on a replica in state %s was answered %d although the engine refuses the same call (%v): the controller takes the step for done", rq.URL, rq.Body, state, o.Status, derr), Case: worker})
					case derr == nil && o.Status >= 400:
						res.Violate(vk.Violation{Property: "C14", Signature: "status-agreement:" + state + ":" + action + ":engine-success-answered-error",
							What: fmt.Sprintf("POST %s %s on a replica in state %s was answered %d %s although the engine performs the same call without error: the controller marks a healthy replica failed", rq.URL, rq.Body, state, o.Status, firstLines(o.Body, 1)), Case: worker})
					}
				}
			}
			// (no Close: it waits a second for the hole puncher's drain; the files go with the directories)
			os.RemoveAll(a.Dir)
			os.RemoveAll(b.Dir)
		}
	}
	res.Cases++
}
