// Package restfuzz is engine E4: the real controller/rest and replica/rest
// routers (handlers, rancher api middleware) driven in-process by generated
// requests. Every request is journalled to disk before it is executed; panics
// are caught around ServeHTTP; after every request a liveness request and a
// TryLock on the controller / replica-server mutex decide "wedged or not".
package restfuzz

import (
	"bytes"
	"encoding/base64"
	"encoding/json"
	"fmt"
	"net/http"
	"net/http/httptest"
	"net/url"
	"os"
	"runtime/debug"
	"strings"
	"sync"
	"time"

	"github.com/gorilla/mux"

	"verif/harness/internal/vk"
)

// Req is one generated request.
type Req struct {
	Method string `json:"m"`
	URL    string `json:"u"`
	Body   string `json:"b,omitempty"`
	Class  string `json:"c"` // route | method-class | body-class | id-class
	Valid  bool   `json:"v"`
}

type route struct {
	Tmpl    string
	Methods []string
	Queries []string
}

// routesOf enumerates the router at run time so that new routes are picked up.
func routesOf(r *mux.Router) []route {
	var out []route
	r.Walk(func(rt *mux.Route, _ *mux.Router, _ []*mux.Route) error {
		t, err := rt.GetPathTemplate()
		if err != nil {
			return nil
		}
		ms, _ := rt.GetMethods()
		qs, _ := rt.GetQueriesTemplates()
		out = append(out, route{Tmpl: t, Methods: ms, Queries: qs})
		return nil
	})
	return out
}

var allMethods = []string{"GET", "POST", "PUT", "DELETE", "PATCH", "HEAD"}

// bodies returns body variants for a (valid) JSON body.
func bodies(valid string, r *vk.Rand) []struct{ b, cls string } {
	out := []struct{ b, cls string }{{valid, "valid"}, {"", "empty"}, {"not json at all", "non-json"}, {"{", "open-brace"}, {"[]", "array"}, {"null", "null"}}
	if len(valid) > 3 {
		for cut := 1; cut < len(valid); cut += 3 {
			out = append(out, struct{ b, cls string }{valid[:cut], "truncated"})
		}
		// wrong types per field
		var m map[string]interface{}
		if json.Unmarshal([]byte(valid), &m) == nil {
			for k, v := range m {
				for _, w := range wrongTypes(v) {
					m2 := map[string]interface{}{}
					for kk, vv := range m {
						m2[kk] = vv
					}
					m2[k] = w
					b, _ := json.Marshal(m2)
					out = append(out, struct{ b, cls string }{string(b), "wrong-type"})
				}
			}
		}
	}
	out = append(out, struct{ b, cls string }{`{"name":"` + strings.Repeat("A", 1<<20) + `"}`, "oversized"})
	return out
}

func wrongTypes(v interface{}) []interface{} {
	switch v.(type) {
	case string:
		return []interface{}{12345, true, []interface{}{"x"}, map[string]interface{}{"a": 1}, nil}
	case bool:
		return []interface{}{"yes", 3, nil}
	case float64:
		return []interface{}{"12", true, -1, 1e300}
	case []interface{}:
		return []interface{}{"tcp://127.0.0.1:9502", 5, map[string]interface{}{}, []interface{}{1, 2}, []interface{}{}}
	}
	return []interface{}{"x", 1}
}

func b64(s string) string { return base64.StdEncoding.EncodeToString([]byte(s)) }

// hostileIDs are id path segments (always valid percent-escapes).
func hostileIDs(valid string) []struct{ id, cls string } {
	return []struct{ id, cls string }{
		{valid, "valid"}, {"nope", "wrong"}, {b64("tcp://127.250.250.250:9502"), "unknown-b64"}, {"!!!", "not-base64"},
		{strings.TrimRight(valid, "="), "padding-stripped"}, {url.PathEscape("../../etc/passwd"), "traversal"}, {url.PathEscape("a b\x00c"), "nul"},
		{strings.Repeat("QUFB", 2000), "long"}, {"1", "one"}, {"0", "zero"}, {"-1", "negative"}, {url.PathEscape("ü%"), "unicode"},
	}
}

// Target is a router plus the means to judge its health.
type Target struct {
	Name     string
	Router   http.Handler
	Liveness string
	TryLock  func() bool
	Unlock   func()
	Digest   func() string
	// Aftermath, if set, returns well-formed requests that address what the target holds *now* (e.g. every replica
	// the controller lists): sent after concurrent requests, so that a state they corrupted is acted upon
	Aftermath func() []Req
}

// Outcome of one request.
type Outcome struct {
	Status  int
	Panic   string
	Hung    bool
	Elapsed time.Duration
	Body    string
}

// do executes one request with panic capture and a watchdog.
func do(t *Target, rq Req, watchdog time.Duration) Outcome {
	var o Outcome
	done := make(chan struct{})
	start := time.Now()
	go func() {
		defer close(done)
		defer func() {
			if p := recover(); p != nil {
				o.Panic = fmt.Sprintf("%v\n%s", p, firstLines(string(debug.Stack()), 30))
			}
		}()
		var body *bytes.Reader
		body = bytes.NewReader([]byte(rq.Body))
		hr, err := http.NewRequest(rq.Method, "http://controller.test"+rq.URL, body)
		if err != nil {
			o.Status = -1
			return
		}
		if rq.Body != "" {
			hr.Header.Set("Content-Type", "application/json")
		}
		hr.RequestURI = rq.URL
		rec := httptest.NewRecorder()
		t.Router.ServeHTTP(rec, hr)
		o.Status = rec.Code
		o.Body = firstLines(rec.Body.String(), 3)
	}()
	select {
	case <-done:
	case <-time.After(watchdog):
		o.Hung = true
	}
	o.Elapsed = time.Since(start)
	return o
}

func firstLines(s string, n int) string {
	l := strings.SplitN(s, "\n", n+1)
	if len(l) > n {
		l = l[:n]
	}
	s = strings.Join(l, "\n")
	if len(s) > 1500 {
		s = s[:1500]
	}
	return s
}

// Session runs requests against one target and judges each.
type Session struct {
	T       *Target
	Res     *vk.Result
	Prop    string
	Journal *os.File
	Seed    uint64
	Case    int
	State   string
	Log     []Req
	Dead    bool
	mu      sync.Mutex
}

func (s *Session) fail(sig, what string, rq Req, o Outcome) {
	s.Dead = true
	if s.Prop != "C14" {
		s.Res.Count("other_property_observation:C14:"+sig, 1)
		return
	}
	tail := s.Log
	if len(tail) > 12 {
		tail = tail[len(tail)-12:]
	}
	s.Res.Violate(vk.Violation{Property: "C14", Signature: sig, What: what, Seed: s.Seed, Case: s.Case,
		Witness: map[string]interface{}{"target": s.T.Name, "state": s.State, "request": rq, "status": o.Status, "panic": o.Panic, "response": o.Body, "preceding_requests": tail}})
}

func routeOf(u string) string {
	if i := strings.Index(u, "?"); i >= 0 {
		q, _ := url.ParseQuery(u[i+1:])
		a := q.Get("action")
		u = u[:i]
		parts := strings.Split(u, "/")
		if len(parts) > 3 && parts[2] != "schemas" {
			parts[3] = "{id}"
		}
		return strings.Join(parts, "/") + "?action=" + a
	}
	parts := strings.Split(u, "/")
	if len(parts) > 3 && (parts[2] == "replicas" || parts[2] == "volumes") {
		parts[3] = "{id}"
	}
	return strings.Join(parts, "/")
}

// Send executes a request, journals it first, and applies the C14 oracle.
func (s *Session) Send(rq Req) Outcome {
	if s.Dead {
		return Outcome{}
	}
	if s.Journal != nil {
		b, _ := json.Marshal(map[string]interface{}{"k": "REQ " + rq.Method + " " + routeOf(rq.URL), "target": s.T.Name, "state": s.State, "class": rq.Class, "url": trunc(rq.URL, 300), "body": trunc(rq.Body, 300)})
		s.Journal.Write(append(b, '\n'))
	}
	s.Log = append(s.Log, Req{Method: rq.Method, URL: trunc(rq.URL, 200), Body: trunc(rq.Body, 200), Class: rq.Class})
	o := do(s.T, rq, 20*time.Second)
	s.Res.Count("requests", 1)
	s.Res.Count(fmt.Sprintf("status_%dxx", o.Status/100), 1)
	key := rq.Method + " " + routeOf(rq.URL) + " [" + rq.Class + "]"
	switch {
	case o.Panic != "":
		s.fail("handler-panic:"+s.T.Name+":"+rq.Method+" "+routeOf(rq.URL)+":"+panicClass(o.Panic), fmt.Sprintf("%s: handler panicked on %s in state %s: %s", s.T.Name, key, s.State, firstLines(o.Panic, 2)), rq, o)
		return o
	case o.Hung:
		s.fail("request-never-returned:"+s.T.Name+":"+rq.Method+" "+routeOf(rq.URL), fmt.Sprintf("%s: %s did not return within 20 s in state %s", s.T.Name, key, s.State), rq, o)
		return o
	}
	// liveness: a well-formed request is still served and no lock is left held
	lv := do(s.T, Req{Method: "GET", URL: s.T.Liveness}, 20*time.Second)
	if lv.Hung || lv.Panic != "" || lv.Status >= 500 || lv.Status == 0 {
		s.fail("wedged-after:"+s.T.Name+":"+rq.Method+" "+routeOf(rq.URL), fmt.Sprintf("%s: after %s (status %d) the liveness request GET %s hangs=%v status=%d panic=%q", s.T.Name, key, o.Status, s.T.Liveness, lv.Hung, lv.Status, firstLines(lv.Panic, 1)), rq, o)
		return o
	}
	free := false
	for i := 0; i < 2000; i++ {
		if s.T.TryLock() {
			s.T.Unlock()
			free = true
			break
		}
		time.Sleep(time.Millisecond)
	}
	if !free {
		s.fail("lock-left-held:"+s.T.Name+":"+rq.Method+" "+routeOf(rq.URL), fmt.Sprintf("%s: after %s (status %d) the mutex stays locked with no request in flight", s.T.Name, key, o.Status), rq, o)
	}
	return o
}

func panicClass(p string) string {
	l := firstLines(p, 1)
	for _, k := range []string{"index out of range", "slice bounds out of range", "nil pointer", "negative", "interface conversion", "makeslice", "close of closed", "send on closed", "nil map"} {
		if strings.Contains(l, k) {
			return strings.ReplaceAll(k, " ", "-")
		}
	}
	return "other"
}

func trunc(s string, n int) string {
	if len(s) > n {
		return s[:n] + fmt.Sprintf("...(%d bytes)", len(s))
	}
	return s
}

// Burst issues requests from several goroutines at once (the handlers' lock
// discipline under concurrency: nested read locks against a waiting writer,
// unlock on error paths) and applies the C14 oracle to the whole batch.
func (s *Session) Burst(pool []Req, goroutines, each int, r *vk.Rand) {
	if s.Dead || len(pool) == 0 {
		return
	}
	plan := make([][]Req, goroutines)
	for g := range plan {
		for k := 0; k < each; k++ {
			rq := pool[r.Intn(len(pool))]
			plan[g] = append(plan[g], rq)
			if s.Journal != nil {
				b, _ := json.Marshal(map[string]interface{}{"k": "BURST " + rq.Method + " " + routeOf(rq.URL), "target": s.T.Name, "state": s.State, "class": rq.Class, "url": trunc(rq.URL, 300), "body": trunc(rq.Body, 300)})
				s.Journal.Write(append(b, '\n'))
			}
			s.Log = append(s.Log, Req{Method: rq.Method, URL: trunc(rq.URL, 200), Body: trunc(rq.Body, 200), Class: "burst|" + rq.Class})
		}
	}
	type bad struct {
		rq Req
		o  Outcome
	}
	var mu sync.Mutex
	var hung, panicked []bad
	var wg sync.WaitGroup
	for g := range plan {
		wg.Add(1)
		go func(list []Req) {
			defer wg.Done()
			for _, rq := range list {
				o := do(s.T, rq, 30*time.Second)
				mu.Lock()
				if o.Panic != "" {
					panicked = append(panicked, bad{rq, o})
				}
				if o.Hung {
					hung = append(hung, bad{rq, o})
				}
				mu.Unlock()
				if o.Hung {
					return
				}
			}
		}(plan[g])
	}
	wg.Wait()
	s.Res.Count("burst_requests", int64(goroutines*each))
	s.Res.Count("bursts", 1)
	if len(panicked) > 0 {
		b := panicked[0]
		s.fail("handler-panic:"+s.T.Name+":"+b.rq.Method+" "+routeOf(b.rq.URL)+":"+panicClass(b.o.Panic), fmt.Sprintf("%s: handler panicked on %s %s among concurrent requests in state %s: %s", s.T.Name, b.rq.Method, routeOf(b.rq.URL), s.State, firstLines(b.o.Panic, 2)), b.rq, b.o)
		return
	}
	if len(hung) > 0 {
		b := hung[0]
		s.fail("concurrent-requests-deadlocked:"+s.T.Name, fmt.Sprintf("%s: %d of %d concurrent requests never returned (30 s), first %s %s, state %s", s.T.Name, len(hung), goroutines*each, b.rq.Method, routeOf(b.rq.URL), s.State), b.rq, b.o)
		return
	}
	lv := do(s.T, Req{Method: "GET", URL: s.T.Liveness}, 20*time.Second)
	if lv.Hung || lv.Panic != "" || lv.Status == 0 {
		s.fail("wedged-after:"+s.T.Name+":burst", fmt.Sprintf("%s: after a burst of concurrent requests the liveness request hangs=%v status=%d", s.T.Name, lv.Hung, lv.Status), Req{}, lv)
		return
	}
	for i := 0; i < 2000; i++ {
		if s.T.TryLock() {
			s.T.Unlock()
			return
		}
		time.Sleep(time.Millisecond)
	}
	s.fail("lock-left-held:"+s.T.Name+":burst", s.T.Name+": after a burst of concurrent requests the mutex stays locked with no request in flight", Req{}, Outcome{})
}

// Convoy queues request a and then request b behind the target's own mutex,
// which the harness holds meanwhile, and then lets them go: a proceeds first
// (writers are served in arrival order), so b runs in a state that changed
// after b passed whatever it checked before asking for the lock (the REST
// state gate, guards placed ahead of the lock). The C14 oracle is applied to
// both requests and to the target afterwards.
func (s *Session) Convoy(a, b Req) {
	if s.Dead {
		return
	}
	got := false
	for i := 0; i < 3000 && !got; i++ {
		if got = s.T.TryLock(); !got {
			time.Sleep(time.Millisecond)
		}
	}
	if !got {
		s.fail("lock-left-held:"+s.T.Name+":before-convoy", s.T.Name+": the mutex stays locked with no request in flight", Req{}, Outcome{})
		return
	}
	for _, rq := range []Req{a, b} {
		if s.Journal != nil {
			j, _ := json.Marshal(map[string]interface{}{"k": "CONVOY " + rq.Method + " " + routeOf(rq.URL), "target": s.T.Name, "state": s.State, "class": rq.Class, "url": trunc(rq.URL, 300), "body": trunc(rq.Body, 300)})
			s.Journal.Write(append(j, '\n'))
		}
		s.Log = append(s.Log, Req{Method: rq.Method, URL: trunc(rq.URL, 200), Body: trunc(rq.Body, 200), Class: "convoy|" + rq.Class})
	}
	type done struct {
		rq Req
		o  Outcome
	}
	ch := make(chan done, 2)
	go func() { ch <- done{a, do(s.T, a, 30*time.Second)} }()
	time.Sleep(12 * time.Millisecond)
	go func() { ch <- done{b, do(s.T, b, 30*time.Second)} }()
	time.Sleep(12 * time.Millisecond)
	s.T.Unlock()
	s.Res.Count("convoys", 1)
	for i := 0; i < 2; i++ {
		d := <-ch
		s.Res.Count(fmt.Sprintf("status_%dxx", d.o.Status/100), 1)
		switch {
		case d.o.Panic != "":
			s.fail("handler-panic:"+s.T.Name+":"+d.rq.Method+" "+routeOf(d.rq.URL)+":"+panicClass(d.o.Panic), fmt.Sprintf("%s: handler panicked on %s %s queued behind %s %s in state %s: %s", s.T.Name, d.rq.Method, routeOf(d.rq.URL), a.Method, routeOf(a.URL), s.State, firstLines(d.o.Panic, 2)), d.rq, d.o)
		case d.o.Hung:
			s.fail("request-never-returned:"+s.T.Name+":"+d.rq.Method+" "+routeOf(d.rq.URL), fmt.Sprintf("%s: %s %s queued together with %s %s did not return within 30 s in state %s", s.T.Name, d.rq.Method, routeOf(d.rq.URL), a.Method, routeOf(a.URL), s.State), d.rq, d.o)
		}
	}
	if s.Dead {
		return
	}
	s.aftermath(fmt.Sprintf("%s %s and %s %s ran back to back", a.Method, routeOf(a.URL), b.Method, routeOf(b.URL)))
	if s.Dead {
		return
	}
	lv := do(s.T, Req{Method: "GET", URL: s.T.Liveness}, 20*time.Second)
	if lv.Hung || lv.Panic != "" || lv.Status == 0 {
		s.fail("wedged-after:"+s.T.Name+":convoy", fmt.Sprintf("%s: after %s %s and %s %s ran back to back the liveness request hangs=%v status=%d", s.T.Name, a.Method, routeOf(a.URL), b.Method, routeOf(b.URL), lv.Hung, lv.Status), b, lv)
		return
	}
	for i := 0; i < 2000; i++ {
		if s.T.TryLock() {
			s.T.Unlock()
			return
		}
		time.Sleep(time.Millisecond)
	}
	s.fail("lock-left-held:"+s.T.Name+":convoy", fmt.Sprintf("%s: after %s %s and %s %s the mutex stays locked with no request in flight", s.T.Name, a.Method, routeOf(a.URL), b.Method, routeOf(b.URL)), b, Outcome{})
}

// aftermath sends the target's follow-up requests (journalled first, so that a process death is attributed).
func (s *Session) aftermath(after string) {
	if s.T.Aftermath == nil {
		return
	}
	for _, rq := range s.T.Aftermath() {
		if s.Journal != nil {
			j, _ := json.Marshal(map[string]interface{}{"k": "AFTER " + rq.Method + " " + routeOf(rq.URL), "target": s.T.Name, "state": s.State, "class": rq.Class, "url": trunc(rq.URL, 300), "body": trunc(rq.Body, 300), "after": after})
			s.Journal.Write(append(j, '\n'))
		}
		s.Log = append(s.Log, Req{Method: rq.Method, URL: trunc(rq.URL, 200), Body: trunc(rq.Body, 200), Class: "aftermath|" + rq.Class})
		o := do(s.T, rq, 20*time.Second)
		s.Res.Count("aftermath_requests", 1)
		switch {
		case o.Panic != "":
			s.fail("handler-panic:"+s.T.Name+":"+rq.Method+" "+routeOf(rq.URL)+":"+panicClass(o.Panic), fmt.Sprintf("%s: handler panicked on %s %s sent after %s: %s", s.T.Name, rq.Method, routeOf(rq.URL), after, firstLines(o.Panic, 2)), rq, o)
			return
		case o.Hung:
			s.fail("request-never-returned:"+s.T.Name+":"+rq.Method+" "+routeOf(rq.URL), fmt.Sprintf("%s: %s %s sent after %s did not return within 20 s", s.T.Name, rq.Method, routeOf(rq.URL), after), rq, o)
			return
		}
	}
}
