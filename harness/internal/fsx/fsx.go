// Package fsx holds file-system helpers for oracles: extent-exact copies of
// replica directories (in this on-disk format an allocated block of zeros in
// an upper layer shadows the layers below, so sparseness must be preserved
// exactly), extent listings and directory fingerprints.
package fsx

import (
	"crypto/sha256"
	"encoding/hex"
	"fmt"
	"io"
	"os"
	"path/filepath"
	"sort"
	"syscall"
)

const (
	seekData = 3
	seekHole = 4
)

// Extent is an allocated byte range of a file.
type Extent struct{ Off, Len int64 }

// Extents lists the data extents of a file (SEEK_DATA/SEEK_HOLE).
func Extents(path string) ([]Extent, int64, error) {
	f, err := os.Open(path)
	if err != nil {
		return nil, 0, err
	}
	defer f.Close()
	st, err := f.Stat()
	if err != nil {
		return nil, 0, err
	}
	size := st.Size()
	var out []Extent
	fd := int(f.Fd())
	pos := int64(0)
	for pos < size {
		d, err := syscall.Seek(fd, pos, seekData)
		if err != nil {
			if err == syscall.ENXIO {
				break
			}
			return nil, 0, err
		}
		h, err := syscall.Seek(fd, d, seekHole)
		if err != nil {
			return nil, 0, err
		}
		if h > size {
			h = size
		}
		out = append(out, Extent{d, h - d})
		pos = h
	}
	return out, size, nil
}

// CopyFile copies src to dst preserving holes exactly.
func CopyFile(src, dst string) error {
	exts, size, err := Extents(src)
	if err != nil {
		return err
	}
	in, err := os.Open(src)
	if err != nil {
		return err
	}
	defer in.Close()
	out, err := os.OpenFile(dst, os.O_CREATE|os.O_TRUNC|os.O_WRONLY, 0600)
	if err != nil {
		return err
	}
	defer out.Close()
	if err := out.Truncate(size); err != nil {
		return err
	}
	buf := make([]byte, 1<<20)
	for _, e := range exts {
		off := e.Off
		end := e.Off + e.Len
		for off < end {
			n := int64(len(buf))
			if end-off < n {
				n = end - off
			}
			m, err := in.ReadAt(buf[:n], off)
			if err != nil && err != io.EOF {
				return err
			}
			if m == 0 {
				break
			}
			if _, err := out.WriteAt(buf[:m], off); err != nil {
				return err
			}
			off += int64(m)
		}
	}
	return nil
}

// CopyDir copies all regular files of src into a fresh directory dst.
func CopyDir(src, dst string) error {
	if err := os.MkdirAll(dst, 0700); err != nil {
		return err
	}
	ents, err := os.ReadDir(src)
	if err != nil {
		return err
	}
	for _, e := range ents {
		if !e.Type().IsRegular() {
			continue
		}
		if err := CopyFile(filepath.Join(src, e.Name()), filepath.Join(dst, e.Name())); err != nil {
			// a file may legitimately vanish while a live replica runs
			if os.IsNotExist(err) {
				continue
			}
			return err
		}
	}
	return nil
}

// DirHash fingerprints names, sizes, extents and contents of a directory.
// Files whose name is in skip are ignored.
func DirHash(dir string, skip map[string]bool) (string, error) {
	ents, err := os.ReadDir(dir)
	if err != nil {
		return "", err
	}
	names := []string{}
	for _, e := range ents {
		if e.Type().IsRegular() && !skip[e.Name()] {
			names = append(names, e.Name())
		}
	}
	sort.Strings(names)
	h := sha256.New()
	for _, n := range names {
		p := filepath.Join(dir, n)
		exts, size, err := Extents(p)
		if err != nil {
			return "", err
		}
		fmt.Fprintf(h, "F %s %d %v\n", n, size, exts)
		f, err := os.Open(p)
		if err != nil {
			return "", err
		}
		buf := make([]byte, 1<<20)
		for _, e := range exts {
			off := e.Off
			for off < e.Off+e.Len {
				n := int64(len(buf))
				if e.Off+e.Len-off < n {
					n = e.Off + e.Len - off
				}
				m, err := f.ReadAt(buf[:n], off)
				if m > 0 {
					h.Write(buf[:m])
					off += int64(m)
				}
				if err != nil {
					break
				}
			}
		}
		f.Close()
	}
	return hex.EncodeToString(h.Sum(nil)), nil
}

// ListDir returns the sorted names of regular files.
func ListDir(dir string) []string {
	ents, _ := os.ReadDir(dir)
	var out []string
	for _, e := range ents {
		out = append(out, e.Name())
	}
	sort.Strings(out)
	return out
}
