package crashpt

import (
	"bufio"
	"os"
	"regexp"
	"strconv"
	"strings"
)

// TraceOpts is the syscall set traced (explicit, to keep runtime noise out).
const TraceSet = "openat,open,creat,close,read,write,pread64,pwrite64,fsync,fdatasync,rename,renameat,renameat2,link,linkat,unlink,unlinkat,truncate,ftruncate,fallocate,mkdir,mkdirat,access,faccessat,faccessat2,newfstatat,fstat,stat,lstat,statx,lseek,getdents64,ioctl,fcntl"

// Call is one system call entry of the victim's main thread.
type Call struct {
	Name    string
	Args    string
	Path    string // first quoted string
	Path2   string // second quoted string (rename/link target)
	FD      int    // first numeric argument for fd-based calls, else -1
	Ret     string
	Ordinal int // n-th call of this name on the main thread since process start
	InOp    bool
	Raw     string
}

var lineRe = regexp.MustCompile(`^(\d+)\s+(.*)$`)
var retRe = regexp.MustCompile(`\)\s+= `)
var fdBased = map[string]bool{"read": true, "write": true, "pread64": true, "pwrite64": true, "fsync": true, "fdatasync": true, "ftruncate": true,
	"fallocate": true, "fcntl": true, "close": true, "lseek": true, "fstat": true, "getdents64": true, "ioctl": true}
var quoted = regexp.MustCompile(`"((?:[^"\\]|\\.)*)"`)

// ParseTrace reads an strace -f -o file and returns the main thread's calls
// in normal form (unfinished/resumed pairs merged, signals and exits dropped).
func ParseTrace(path string) ([]Call, bool, error) {
	f, err := os.Open(path)
	if err != nil {
		return nil, false, err
	}
	defer f.Close()
	sc := bufio.NewScanner(f)
	sc.Buffer(make([]byte, 1<<20), 1<<26)
	mainPid := ""
	var calls []Call
	counts := map[string]int{}
	in := false
	sawEnd := false
	for sc.Scan() {
		m := lineRe.FindStringSubmatch(sc.Text())
		if m == nil {
			continue
		}
		pid, rest := m[1], m[2]
		if mainPid == "" {
			mainPid = pid
		}
		if pid != mainPid {
			continue
		}
		if strings.HasPrefix(rest, "+++") || strings.HasPrefix(rest, "---") {
			continue
		}
		if strings.HasPrefix(rest, "<...") {
			// resumed part: the entry was recorded at the unfinished line
			if len(calls) > 0 {
				if loc := retRe.FindStringIndex(rest); loc != nil {
					calls[len(calls)-1].Ret = strings.TrimSpace(rest[loc[1]:])
				}
			}
			continue
		}
		p := strings.IndexByte(rest, '(')
		if p <= 0 {
			continue
		}
		name := rest[:p]
		c := Call{Name: name, Raw: rest, FD: -1}
		args := rest[p+1:]
		if loc := retRe.FindStringIndex(args); loc != nil {
			c.Ret = strings.TrimSpace(args[loc[1]:])
			args = args[:loc[0]]
		} else {
			args = strings.TrimSuffix(strings.TrimSpace(args), "<unfinished ...>")
		}
		c.Args = args
		if !fdBased[name] {
			q := quoted.FindAllStringSubmatch(args, 3)
			if len(q) > 0 {
				c.Path = q[0][1]
			}
			if len(q) > 1 {
				c.Path2 = q[1][1]
			}
		}
		if fd, err := strconv.Atoi(strings.TrimSpace(strings.SplitN(args, ",", 2)[0])); err == nil {
			c.FD = fd
		}
		counts[name]++
		c.Ordinal = counts[name]
		if name == "access" || name == "faccessat" || name == "faccessat2" {
			if strings.Contains(args, MarkBegin) {
				in = true
				continue
			}
			if strings.Contains(args, MarkEnd) {
				in = false
				sawEnd = true
				continue
			}
		}
		c.InOp = in
		calls = append(calls, c)
	}
	return calls, sawEnd, sc.Err()
}

// Mutating tells whether a call can change the directory's visible state.
func (c Call) Mutating() bool {
	switch c.Name {
	case "write", "pwrite64", "rename", "renameat", "renameat2", "link", "linkat", "unlink", "unlinkat", "truncate", "ftruncate", "fallocate", "mkdir", "mkdirat", "creat":
		return true
	case "openat", "open":
		return strings.Contains(c.Args, "O_CREAT") || strings.Contains(c.Args, "O_TRUNC")
	}
	return false
}

// Errnos returns the errors that can sensibly be injected into the call.
func (c Call) Errnos() []string {
	switch c.Name {
	case "write", "pwrite64":
		return []string{"ENOSPC", "EIO"}
	case "fsync", "fdatasync":
		return []string{"EIO", "ENOSPC"}
	case "read", "pread64":
		return []string{"EIO"}
	case "openat", "open", "creat":
		if strings.Contains(c.Args, "O_CREAT") {
			return []string{"ENOSPC", "EIO"}
		}
		return []string{"EIO"}
	case "rename", "renameat", "renameat2", "link", "linkat", "mkdir", "mkdirat":
		return []string{"ENOSPC", "EIO"}
	case "unlink", "unlinkat", "truncate", "ftruncate":
		return []string{"EIO"}
	case "fallocate":
		return []string{"ENOSPC"}
	}
	return nil
}

// Key is the comparable normal form of a call (pointers and sizes masked).
func (c Call) Key() string {
	return c.Name + ":" + c.Path + ":" + c.Path2
}
