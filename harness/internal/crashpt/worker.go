package crashpt

import (
	"encoding/json"
	"fmt"
	"os"
	"os/exec"
	"path/filepath"
	"strconv"
	"strings"
	"syscall"
	"time"

	"verif/harness/internal/fsx"
	"verif/harness/internal/reng"
	"verif/harness/internal/vk"
)

type point struct {
	Call   Call
	Class  string
	ClsOrd int
	Index  int // index among the in-op calls
}

func fileClass(p string) string {
	b := filepath.Base(p)
	switch {
	case p == "":
		return "?"
	case strings.HasPrefix(b, "volume-head-") && strings.HasSuffix(b, ".img.meta.tmp"):
		return "head-meta-tmp"
	case strings.HasPrefix(b, "volume-head-") && strings.HasSuffix(b, ".img.meta"):
		return "head-meta"
	case strings.HasPrefix(b, "volume-head-") && strings.HasSuffix(b, ".img"):
		return "head-img"
	case strings.HasPrefix(b, "volume-snap-") && strings.HasSuffix(b, ".img.meta.tmp"):
		return "snap-meta-tmp"
	case strings.HasPrefix(b, "volume-snap-") && strings.HasSuffix(b, ".img.meta"):
		return "snap-meta"
	case strings.HasPrefix(b, "volume-snap-") && strings.HasSuffix(b, ".img"):
		return "snap-img"
	case b == "volume.meta.tmp":
		return "volume-meta-tmp"
	case b == "volume.meta":
		return "volume-meta"
	case b == "revision.counter":
		return "revision-counter"
	}
	return "dir-or-other"
}

// annotate resolves fd-based calls to file classes and numbers the points.
func annotate(calls []Call, dir string) []point {
	fdPath := map[int]string{}
	var pts []point
	clsCount := map[string]int{}
	idx := 0
	for _, c := range calls {
		p := c.Path
		switch c.Name {
		case "openat", "open", "creat":
			if fd, err := strconv.Atoi(strings.Fields(c.Ret + " x")[0]); err == nil && fd >= 0 {
				fdPath[fd] = c.Path
			}
		case "close":
			defer delete(fdPath, c.FD)
		default:
			if p == "" && c.FD >= 0 {
				p = fdPath[c.FD]
			}
		}
		if !c.InOp {
			continue
		}
		cls := fileClass(p)
		if p != "" && filepath.Clean(p) == filepath.Clean(dir) {
			cls = "directory"
		}
		k := c.Name + "/" + cls
		clsCount[k]++
		pts = append(pts, point{Call: c, Class: cls, ClsOrd: clsCount[k], Index: idx})
		idx++
	}
	return pts
}

type runner struct {
	self    string
	scratch string
	res     *vk.Result
	prop    string
	seed    uint64
	caseNo  int
}

// runVictim executes the victim under strace with an optional injection.
func (r *runner) runVictim(dir string, op VOp, inject string, tracePath string) (stdout string, status string) {
	opj, _ := json.Marshal(op)
	args := []string{"-f", "-qq", "-e", "signal=none", "-e", "trace=" + TraceSet}
	if inject != "" {
		args = append(args, "-e", "inject="+inject)
	}
	args = append(args, "-o", tracePath, r.self, "victim", dir, string(opj))
	outf := tracePath + ".out"
	of, _ := os.Create(outf)
	cmd := exec.Command("strace", args...)
	cmd.Stdout = of
	cmd.Stderr = of
	cmd.Env = append(os.Environ(), "GODEBUG=asyncpreemptoff=1", "GOMAXPROCS=2")
	cmd.SysProcAttr = &syscall.SysProcAttr{Setpgid: true, Pdeathsig: syscall.SIGKILL}
	if err := cmd.Start(); err != nil {
		of.Close()
		return "", "nostart: " + err.Error()
	}
	done := make(chan error, 1)
	go func() { done <- cmd.Wait() }()
	select {
	case err := <-done:
		if err != nil {
			status = err.Error()
		} else {
			status = "ok"
		}
	case <-time.After(90 * time.Second):
		syscall.Kill(-cmd.Process.Pid, syscall.SIGKILL)
		<-done
		status = "timeout"
	}
	of.Close()
	b, _ := os.ReadFile(outf)
	return string(b), status
}

func (r *runner) check(dir string, ex *Expect) (*Verdict, string) {
	exPath := dir + ".expect.json"
	b, _ := json.Marshal(ex)
	os.WriteFile(exPath, b, 0644)
	out := dir + ".verdict.json"
	os.Remove(out)
	lf, _ := os.Create(dir + ".check.log")
	cmd := exec.Command(r.self, "crashcheck", dir, exPath, out)
	cmd.Stdout, cmd.Stderr = lf, lf
	cmd.SysProcAttr = &syscall.SysProcAttr{Setpgid: true, Pdeathsig: syscall.SIGKILL}
	err := cmd.Start()
	if err == nil {
		done := make(chan error, 1)
		go func() { done <- cmd.Wait() }()
		select {
		case err = <-done:
		case <-time.After(120 * time.Second):
			syscall.Kill(-cmd.Process.Pid, syscall.SIGKILL)
			<-done
			err = fmt.Errorf("timeout")
		}
	}
	lf.Close()
	vb, rerr := os.ReadFile(out)
	if rerr != nil {
		tail, _ := os.ReadFile(dir + ".check.log")
		if len(tail) > 600 {
			tail = tail[len(tail)-600:]
		}
		return nil, fmt.Sprintf("checker died (%v): %s", err, tail)
	}
	v := &Verdict{}
	json.Unmarshal(vb, v)
	for _, f := range []string{exPath, out, dir + ".check.log"} {
		os.Remove(f)
	}
	return v, ""
}

func (r *runner) violate(sig, what string, wit map[string]interface{}) {
	if r.prop != "C08" && r.prop != "C10" {
		return
	}
	r.res.Violate(vk.Violation{Property: r.prop, Signature: sig, What: what, Seed: r.seed, Case: r.caseNo, Witness: wit})
}

// opsFor builds the operations to test on a pre-state, with their after-models.
func opsFor(m *reng.Model, r *vk.Rand, quick bool) []*Expect {
	var out []*Expect
	base := func(op VOp) *Expect {
		ex := &Expect{Op: op, SizeBefore: m.Size, SizeAfter: m.Size, ChainBefore: m.ChainNames(), ChainAfter: m.ChainNames(),
			LiveBefore: append([]uint32(nil), m.Live...), LiveAfter: append([]uint32(nil), m.Live...), Snaps: map[string][]uint32{},
			RevBefore: m.Rev, RevAfter: m.Rev, CpBefore: m.Checkpoint, CpAfter: m.Checkpoint}
		for _, c := range m.Chain {
			if c.User && !c.Removed && !c.Tainted && c.Exact {
				ex.Snaps[c.Name] = append([]uint32(nil), c.Img...)
			}
		}
		return ex
	}
	nb := int(m.Size / reng.Block)
	wr := func(off, l int64) *Expect {
		ex := base(VOp{Kind: "write", Off: off, Len: l, WID: 900000 + uint32(len(out))})
		for s := off / 512; s < (off+l)/512; s++ {
			ex.LiveAfter[s] = ex.Op.WID
		}
		ex.RevAfter = m.Rev + 1
		ex.PerSector = true
		return ex
	}
	b := r.Intn(nb - 4)
	out = append(out, wr(int64(b)*reng.Block, int64(r.Range(1, 3))*reng.Block))
	out = append(out, wr(int64(b)*reng.Block+int64(r.Range(1, 7))*512, int64(r.Range(1, 20))*512))
	for _, user := range []bool{true, false} {
		name := fmt.Sprintf("c%v", user)
		ex := base(VOp{Kind: "snapshot", Name: name, User: user})
		m2 := *m
		m2.Chain = append([]*reng.Member(nil), m.Chain...)
		m2.Snapshot(name, user)
		ex.ChainAfter = m2.ChainNames()
		out = append(out, ex)
		if quick {
			break
		}
	}
	n := len(m.Chain)
	// removal through the production action list, merge target not a retained user snapshot
	for i := 1; i <= n-2; i++ {
		p := m.Chain[i-1]
		if p.User && !p.Removed {
			continue
		}
		ex := base(VOp{Kind: "remove", Name: m.Chain[i].Name})
		delete(ex.Snaps, m.Chain[i].Name)
		var ch []string
		for _, c := range m.ChainNames() {
			if c != m.Chain[i].Name {
				ch = append(ch, c)
			}
		}
		ex.ChainAfter = ch
		out = append(out, ex)
		break
	}
	for i := 1; i <= n-2; i++ {
		if m.Chain[i].User && !m.Chain[i].Removed {
			ex := base(VOp{Kind: "markremoved", Name: m.Chain[i].Name})
			out = append(out, ex)
			break
		}
	}
	if n > 0 {
		i := r.Intn(n)
		if m.Chain[i].Exact {
			ex := base(VOp{Kind: "revert", Name: m.Chain[i].Name})
			m2 := *m
			m2.Chain = append([]*reng.Member(nil), m.Chain...)
			m2.Live = append([]uint32(nil), m.Live...)
			m2.Revert(i)
			ex.ChainAfter = m2.ChainNames()
			ex.LiveAfter = append([]uint32(nil), m2.Live...)
			for name := range ex.Snaps {
				if m2.Find(name) < 0 {
					delete(ex.Snaps, name)
				}
			}
			out = append(out, ex)
		}
		ex := base(VOp{Kind: "setcheckpoint", Name: m.Chain[n-1].Name})
		ex.CpAfter = m.Chain[n-1].Name
		out = append(out, ex)
		out = append(out, base(VOp{Kind: "cloneinfo", Name: strings.TrimSuffix(strings.TrimPrefix(m.Chain[n-1].Name, "volume-snap-"), ".img")}))
	}
	{
		ex := base(VOp{Kind: "resize", Size: m.Size + int64(r.Range(1, 8))*reng.Block})
		ex.SizeAfter = ex.Op.Size
		out = append(out, ex)
	}
	out = append(out, base(VOp{Kind: "setrebuilding", Flag: true}))
	out = append(out, base(VOp{Kind: "close"}))
	out = append(out, base(VOp{Kind: "open"}))
	out = append(out, base(VOp{Kind: "reload"}))
	return out
}

// RunWorker enumerates crash points and failing calls for `cases` pre-states.
func RunWorker(prop string, seed uint64, worker, cases int, scratch, out string, extra map[string]string) error {
	reng.QuietLogs()
	reng.RaiseFdLimit()
	reng.StartHolePuncher()
	res := vk.NewResult("crashpt")
	self, _ := os.Executable()
	quick := extra["tier"] != "thorough"
	errnos := map[string]bool{"ENOSPC": true}
	if !quick {
		errnos["EIO"] = true
	}
	for c := 0; c < cases; c++ {
		cs := vk.Mix(seed, prop, fmt.Sprint(worker), fmt.Sprint(c))
		r := vk.NewRand(cs)
		rn := &runner{self: self, scratch: scratch, res: res, prop: prop, seed: cs, caseNo: worker*1000 + c}
		pdir := filepath.Join(scratch, fmt.Sprintf("P%d", c))
		nops := r.Range(0, 20)
		m, ok := reng.BuildPreState(pdir, r, nops, res)
		if !ok {
			res.Inconclusive = append(res.Inconclusive, fmt.Sprintf("pre-state %d could not be built", c))
			continue
		}
		exps := opsFor(m, r, quick)
		// each worker takes a slice of the operations so that 16 workers cover all of them on different pre-states
		for oi, ex := range exps {
			if prop == "C10" && ex.Op.Kind != "write" {
				continue
			}
			if quick && prop == "C08" && (oi+worker+c)%2 != 0 {
				continue
			}
			rn.enumerate(pdir, m, ex, errnos, quick)
			res.WriteFile(out)
		}
		os.RemoveAll(pdir)
		res.Cases++
	}
	return res.WriteFile(out)
}

func (rn *runner) enumerate(pdir string, m *reng.Model, ex *Expect, errnos map[string]bool, quick bool) {
	res := rn.res
	opk := ex.Op.Kind
	work := filepath.Join(rn.scratch, "run")
	ref := filepath.Join(rn.scratch, "ref.trace")
	fresh := func() {
		os.RemoveAll(work)
		fsx.CopyDir(pdir, work)
	}
	// reference run
	fresh()
	stdout, status := rn.runVictim(work, ex.Op, "", ref)
	calls, sawEnd, err := ParseTrace(ref)
	if err != nil || !sawEnd || !strings.Contains(stdout, "RESULT") {
		res.Inconclusive = append(res.Inconclusive, fmt.Sprintf("reference run of %s unusable (status %s, end marker %v): %.200s", opk, status, sawEnd, stdout))
		return
	}
	if !strings.Contains(stdout, "RESULT ok") {
		res.Inconclusive = append(res.Inconclusive, fmt.Sprintf("reference run of %s failed without injection: %.200s", opk, stdout))
		return
	}
	pts := annotate(calls, work)
	res.Count("reference_traces", 1)
	res.Count("syscalls_in_operations", int64(len(pts)))
	res.Sig(fmt.Sprintf("%s:%dcalls:chain%d", opk, len(pts), len(m.Chain)))
	res.Sample(map[string]interface{}{"op": ex.Op, "chain_before": ex.ChainBefore, "fs_calls": traceSummary(pts)}, 3)
	// the completed operation must leave the after-state
	if v, herr := rn.check(work, ex); herr != "" {
		res.Inconclusive = append(res.Inconclusive, herr)
	} else if v.State != "after" && !(v.State == "before" && sameState(ex)) {
		rn.violate(fmt.Sprintf("%s:completed:state-%s", opk, v.State), fmt.Sprintf("%s returned success and the process exited; reopened state is %q: %s", opk, v.State, v.Problem),
			map[string]interface{}{"op": ex.Op, "chain_before": ex.ChainBefore, "verdict": v})
		return
	}
	// durability lint on the reference trace
	rn.lint(opk, pts, work, ex)
	refKeys := keysOfCalls(calls)
	crashState := map[int]string{} // index of a mutating call -> state a reopen finds when the process died right before it
	// (1) process death before every mutating call
	for _, p := range pts {
		if !p.Call.Mutating() {
			continue
		}
		if quick && opk == "remove" && p.Index%3 != 0 {
			continue // each run of this operation waits >= 1 s for the hole drainer
		}
		inj := fmt.Sprintf("%s:signal=SIGKILL:when=%d", p.Call.Name, p.Call.Ordinal)
		var v *Verdict
		okRun := false
		for try := 0; try < 3 && !okRun; try++ {
			fresh()
			tr := filepath.Join(rn.scratch, "k.trace")
			rn.runVictim(work, ex.Op, inj, tr)
			got, _, _ := ParseTrace(tr)
			if prefixEqual(refKeys, keysOfCalls(got), p.Call, calls) {
				okRun = true
			}
		}
		if !okRun {
			res.Count("crash_points_unreproducible", 1)
			continue
		}
		res.Count("crash_points", 1)
		var herr string
		v, herr = rn.check(work, ex)
		if herr != "" {
			res.Inconclusive = append(res.Inconclusive, herr)
			continue
		}
		res.Count("crash_state_"+v.State, 1)
		crashState[p.Index] = v.State
		if v.State == "bad" {
			rn.violate(fmt.Sprintf("%s:kill-before:%s/%s#%d", opk, p.Call.Name, p.Class, p.ClsOrd),
				fmt.Sprintf("process death during %s before %s on %s (#%d of that kind): %s", opk, p.Call.Name, p.Class, p.ClsOrd, v.Problem),
				map[string]interface{}{"op": ex.Op, "chain_before": ex.ChainBefore, "chain_after": ex.ChainAfter, "killed_before": p.Call.Raw, "call_index": p.Index, "trace": traceSummary(pts), "verdict": v})
		}
	}
	if rn.prop == "C10" {
		return
	}
	// commit point of chain-changing operations: the first rename of volume.meta.tmp over volume.meta
	commitIdx := -1
	if opk == "snapshot" || opk == "revert" || opk == "resize" {
		for _, p := range pts {
			if (p.Call.Name == "renameat" || p.Call.Name == "rename" || p.Call.Name == "renameat2") && p.Class == "volume-meta-tmp" {
				commitIdx = p.Index
				break
			}
		}
	}
	// (3) exactly one call fails
	for _, p := range pts {
		for _, en := range p.Call.Errnos() {
			if !errnos[en] {
				continue
			}
			if quick && opk == "remove" && p.Index%3 != 1 {
				continue
			}
			inj := fmt.Sprintf("%s:error=%s:when=%d", p.Call.Name, en, p.Call.Ordinal)
			fresh()
			tr := filepath.Join(rn.scratch, "e.trace")
			stdout, _ := rn.runVictim(work, ex.Op, inj, tr)
			res.Count("failing_call_injections", 1)
			reported := "died"
			if strings.Contains(stdout, "RESULT ok") {
				reported = "success"
			} else if strings.Contains(stdout, "RESULT err") {
				reported = "failure"
			}
			v, herr := rn.check(work, ex)
			if herr != "" {
				res.Inconclusive = append(res.Inconclusive, herr)
				continue
			}
			res.Count("failing_call_"+reported+"_state_"+v.State, 1)
			bad := ""
			switch {
			case v.State == "bad":
				bad = "state-bad"
			case reported == "success" && v.State != "after" && !(sameState(ex) && v.State == "before"):
				bad = "success-without-effect"
			case reported == "failure" && v.State == "after" && commitIdx >= 0 && p.Index <= commitIdx:
				// the failing call precedes (or is) the commit point, the failure was reported, yet the new state is on disk:
				// the live process keeps working on the old state while a restart would find the new one
				bad = "failure-before-commit-left-new-state"
			}
			if bad != "" {
				rn.violate(fmt.Sprintf("%s:%s:%s/%s#%d:reported-%s:%s", opk, en, p.Call.Name, p.Class, p.ClsOrd, reported, bad),
					fmt.Sprintf("%s with %s on %s of %s (#%d of that kind): operation reported %s, reopened state %q: %s", opk, en, p.Call.Name, p.Class, p.ClsOrd, reported, v.State, v.Problem),
					map[string]interface{}{"op": ex.Op, "chain_before": ex.ChainBefore, "chain_after": ex.ChainAfter, "failed_call": p.Call.Raw, "errno": en, "victim_output": strings.TrimSpace(stdout), "trace": traceSummary(pts), "verdict": v})
			}
		}
	}
	// (4) the directory cannot be flushed any more: the k-th fsync of the operation and every later one fail (a full or
	// failing disk stays that way). What is durable then is what the last successful directory fsync flushed, i.e. the
	// state a process death right after it leaves (taken from (1): death before the next mutating call). An operation
	// that still reports success must have had its effect flushed by then.
	for _, p := range pts {
		if (p.Call.Name != "fsync" && p.Call.Name != "fdatasync") || p.Class != "directory" {
			continue
		}
		durable, known := "before", true
		prevSync := -1
		for _, q := range pts[:p.Index] {
			if (q.Call.Name == "fsync" || q.Call.Name == "fdatasync") && q.Class == "directory" {
				prevSync = q.Index
			}
		}
		if prevSync >= 0 {
			durable, known = "after", true // no mutating call after the last good flush: the completed state
			for _, q := range pts[prevSync+1:] {
				if q.Call.Mutating() {
					durable, known = crashState[q.Index], crashState[q.Index] != ""
					break
				}
			}
		}
		for _, en := range []string{"EIO", "ENOSPC"} {
			if !errnos[en] {
				continue
			}
			inj := fmt.Sprintf("%s:error=%s:when=%d+", p.Call.Name, en, p.Call.Ordinal)
			fresh()
			tr := filepath.Join(rn.scratch, "f.trace")
			stdout, _ := rn.runVictim(work, ex.Op, inj, tr)
			res.Count("persistent_flush_failure_runs", 1)
			if !strings.Contains(stdout, "RESULT ok") {
				res.Count("persistent_flush_failure_reported", 1)
				continue
			}
			got, _, _ := ParseTrace(tr)
			if !known || !prefixEqual(refKeys, keysOfCalls(got), p.Call, calls) {
				res.Count("persistent_flush_failure_success_undecided", 1)
				continue
			}
			res.Count("persistent_flush_failure_success_durable_state_"+durable, 1)
			if durable != "after" && !(sameState(ex) && durable == "before") {
				rn.violate(fmt.Sprintf("%s:%s:fsync/directory#%d+:reported-success:effect-not-flushed", opk, en, p.ClsOrd),
					fmt.Sprintf("%s with %s on the directory fsync #%d and every later one: the operation reported success, but the last flush that worked left the state %q (what a power failure would leave)", opk, en, p.ClsOrd, durable),
					map[string]interface{}{"op": ex.Op, "chain_before": ex.ChainBefore, "chain_after": ex.ChainAfter, "first_failed_call": p.Call.Raw, "errno": en, "victim_output": strings.TrimSpace(stdout), "trace": traceSummary(pts)})
			}
		}
	}
	os.RemoveAll(work)
}

// sameState: operations whose before and after states are indistinguishable by chain, size and data.
func sameState(ex *Expect) bool {
	switch ex.Op.Kind {
	case "setcheckpoint", "setrebuilding", "cloneinfo", "close", "open", "reload", "markremoved":
		return true
	}
	return false
}

func keysOfCalls(cs []Call) []string {
	out := make([]string, len(cs))
	for i, c := range cs {
		out[i] = c.Key()
	}
	return out
}

// prefixEqual: the injected run must have issued the same calls as the
// reference up to the injection point (otherwise the point is not the one meant).
func prefixEqual(ref, got []string, at Call, refCalls []Call) bool {
	n := 0
	for i, c := range refCalls {
		if c.Name == at.Name && c.Ordinal == at.Ordinal {
			n = i
			break
		}
	}
	if len(got) < n {
		return false
	}
	for i := 0; i < n; i++ {
		if ref[i] != got[i] {
			return false
		}
	}
	return true
}

func traceSummary(pts []point) []string {
	var out []string
	for _, p := range pts {
		out = append(out, fmt.Sprintf("%s %s", p.Call.Name, p.Class))
	}
	return out
}

// lint checks the durability discipline on the reference trace: every
// directory-entry change made by the operation is followed, before the
// operation returns, by an fsync of a descriptor opened on the replica
// directory, and metadata temp files are opened O_SYNC.
func (rn *runner) lint(opk string, pts []point, dir string, ex *Expect) {
	lastDirChange := -1
	lastDirSync := -1
	for i, p := range pts {
		switch p.Call.Name {
		case "rename", "renameat", "renameat2", "link", "linkat", "unlink", "unlinkat":
			lastDirChange = i
		case "openat":
			if strings.Contains(p.Call.Args, "O_CREAT") && !strings.HasSuffix(p.Call.Path, ".tmp") {
				lastDirChange = i
			}
			if strings.HasSuffix(p.Call.Path, ".meta.tmp") && !strings.Contains(p.Call.Args, "O_SYNC") {
				rn.violate(opk+":lint:metadata-temp-file-not-O_SYNC", fmt.Sprintf("%s writes %s without O_SYNC", opk, filepath.Base(p.Call.Path)), map[string]interface{}{"op": ex.Op, "call": p.Call.Raw})
			}
		case "fsync", "fdatasync":
			if p.Class == "directory" && !strings.HasPrefix(p.Call.Ret, "-1") {
				lastDirSync = i
			}
		}
	}
	rn.res.Count("durability_lints", 1)
	if lastDirChange >= 0 && lastDirSync < lastDirChange {
		rn.violate(fmt.Sprintf("%s:lint:directory-change-not-flushed:%s/%s", opk, pts[lastDirChange].Call.Name, pts[lastDirChange].Class),
			fmt.Sprintf("%s returned success but its last directory update (%s) is not followed by an fsync of the directory", opk, pts[lastDirChange].Call.Raw),
			map[string]interface{}{"op": ex.Op, "trace": traceSummary(pts)})
	}
}
