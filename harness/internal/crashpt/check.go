package crashpt

import (
	"encoding/json"
	"fmt"
	"os"
	"reflect"

	"github.com/openebs/jiva/replica"
	"github.com/openebs/jiva/types"

	"verif/harness/internal/fsx"
	"verif/harness/internal/reng"
)

// Expect is what the checker compares a crashed directory with.
type Expect struct {
	Op          VOp                 `json:"op"`
	SizeBefore  int64               `json:"size_before"`
	SizeAfter   int64               `json:"size_after"`
	ChainBefore []string            `json:"chain_before"`
	ChainAfter  []string            `json:"chain_after"`
	LiveBefore  []uint32            `json:"live_before"`
	LiveAfter   []uint32            `json:"live_after"`
	Snaps       map[string][]uint32 `json:"snaps"` // retained user snapshots present before and after
	RevBefore   int64               `json:"rev_before"`
	RevAfter    int64               `json:"rev_after"`
	PerSector   bool                `json:"per_sector"` // a write: every sector may be old or new
	CpBefore    string              `json:"cp_before"`
	CpAfter     string              `json:"cp_after"`
}

// Verdict is the checker's report.
type Verdict struct {
	Opens   bool     `json:"opens"`
	State   string   `json:"state"` // before | after | mixed-ok | bad
	Problem string   `json:"problem,omitempty"`
	Chain   []string `json:"chain,omitempty"`
	Rev     int64    `json:"rev"`
}

func grow(img []uint32, n int) []uint32 {
	if len(img) >= n {
		return img[:n]
	}
	return append(append([]uint32(nil), img...), make([]uint32, n-len(img))...)
}

// RunCrashCheck opens dir with the real code and classifies its state.
func RunCrashCheck(dir, expectPath, outPath string) int {
	reng.QuietLogs()
	reng.StartHolePuncher()
	types.ShouldPunchHoles = false
	var ex Expect
	b, err := os.ReadFile(expectPath)
	if err == nil {
		err = json.Unmarshal(b, &ex)
	}
	if err != nil {
		fmt.Println("HARNESS expect:", err)
		return 4
	}
	v := Verdict{}
	defer func() {
		out, _ := json.Marshal(v)
		os.WriteFile(outPath, out, 0644)
	}()
	for pass, preload := range []bool{true, false} {
		work := dir
		if pass == 1 {
			// second opening on a copy of the crashed state, without preload
			work = dir + ".np"
			os.RemoveAll(work)
			if err := fsx.CopyDir(dir+".orig", work); err != nil {
				v.Problem = "harness copy: " + err.Error()
				return 0
			}
			defer os.RemoveAll(work)
		} else {
			os.RemoveAll(dir + ".orig")
			if err := fsx.CopyDir(dir, dir+".orig"); err != nil {
				v.Problem = "harness copy: " + err.Error()
				return 0
			}
			defer os.RemoveAll(dir + ".orig")
		}
		s := replica.NewServer("127.0.0.1:9502", work, 512, "")
		s.SetPreload(preload)
		if err := s.Open(); err != nil {
			v.Opens = false
			v.State = "bad"
			v.Problem = fmt.Sprintf("replica cannot be opened (preload=%v): %v", preload, err)
			return 0
		}
		v.Opens = true
		r := s.Replica()
		chain, err := r.Chain()
		if err != nil {
			v.State, v.Problem = "bad", "Chain(): "+err.Error()
			return 0
		}
		v.Chain = chain
		_, info := s.Status()
		v.Rev = r.GetRevisionCounter()
		st := ""
		switch {
		case reflect.DeepEqual(chain, ex.ChainAfter) && info.Size == ex.SizeAfter:
			st = "after"
		case reflect.DeepEqual(chain, ex.ChainBefore) && info.Size == ex.SizeBefore:
			st = "before"
		case reflect.DeepEqual(chain, ex.ChainBefore) && info.Size == ex.SizeAfter:
			st = "after" // resize committed
		default:
			v.State = "bad"
			v.Problem = fmt.Sprintf("chain %v size %d is neither the chain before %v (%d) nor after %v (%d)", chain, info.Size, ex.ChainBefore, ex.SizeBefore, ex.ChainAfter, ex.SizeAfter)
			return 0
		}
		// chain and size alone cannot tell before from after for data-only operations
		buf := make([]byte, info.Size)
		if _, err := s.ReadAt(buf, 0); err != nil {
			v.State, v.Problem = "bad", "full read: "+err.Error()
			return 0
		}
		nsec := int(info.Size / 512)
		lb, la := grow(ex.LiveBefore, nsec), grow(ex.LiveAfter, nsec)
		dB, _ := reng.Diff(buf, 0, lb)
		dA, _ := reng.Diff(buf, 0, la)
		switch {
		case ex.PerSector:
			// every sector old or new
			mixed := make([]uint32, nsec)
			one := make([]byte, 512)
			for i := 0; i < nsec; i++ {
				copy(one, buf[i*512:(i+1)*512])
				if d, _ := reng.Diff(one, int64(i)*512, la); d == "" {
					mixed[i] = la[i]
				} else {
					mixed[i] = lb[i]
				}
			}
			if d, n := reng.Diff(buf, 0, mixed); d != "" {
				v.State, v.Problem = "bad", fmt.Sprintf("after an interrupted write %d sectors hold neither the old nor the new data; first: %s", n, d)
				return 0
			}
			switch {
			case dA == "":
				st = "after"
			case dB == "":
				st = "before"
			default:
				st = "mixed-ok"
			}
		case dA == "" && dB == "":
			// data identical before and after: keep the chain-based classification
		case st == "after" && dA != "":
			if dB == "" && reflect.DeepEqual(ex.ChainBefore, ex.ChainAfter) {
				st = "before"
			} else {
				v.State, v.Problem = "bad", "chain is the one after the operation but data differs from the after-image: "+dA
				return 0
			}
		case st == "before" && dB != "":
			if dA == "" && reflect.DeepEqual(ex.ChainBefore, ex.ChainAfter) {
				st = "after"
			} else {
				v.State, v.Problem = "bad", "chain is the one before the operation but previously acknowledged data changed: "+dB
				return 0
			}
		}
		// revision counter never goes back and moves by at most the operation's own increment
		if v.Rev < ex.RevBefore && ex.Op.Kind != "setrev" && ex.Op.Kind != "cloneinfo" {
			v.State, v.Problem = "bad", fmt.Sprintf("revision counter went back: %d < %d", v.Rev, ex.RevBefore)
			return 0
		}
		if ex.Op.Kind != "setrev" && ex.Op.Kind != "cloneinfo" && v.Rev > ex.RevAfter {
			v.State, v.Problem = "bad", fmt.Sprintf("revision counter %d beyond %d", v.Rev, ex.RevAfter)
			return 0
		}
		// retained user snapshots read back unchanged
		if pass == 0 {
			inChain := map[string]bool{}
			for _, n := range chain {
				inChain[n] = true
			}
			for name, img := range ex.Snaps {
				if !inChain[name] {
					continue
				}
				e := &reng.Engine{Dir: work, M: &reng.Model{Size: info.Size}}
				data, err := e.RevertOnCopy(name)
				if err != nil {
					v.State, v.Problem = "bad", fmt.Sprintf("retained snapshot %s unreadable: %v", name, err)
					return 0
				}
				if d, n := reng.Diff(data, 0, grow(img, len(data)/512)); d != "" {
					v.State, v.Problem = "bad", fmt.Sprintf("retained snapshot %s changed in %d sectors; first: %s", name, n, d)
					return 0
				}
			}
		}
		r.Close()
		if v.State == "" || pass == 0 {
			v.State = st
		} else if v.State != st {
			v.State, v.Problem = "bad", fmt.Sprintf("state with preload is %q, without preload %q", v.State, st)
			return 0
		}
	}
	return 0
}
