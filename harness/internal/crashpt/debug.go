package crashpt

import (
	"fmt"
	"os"
	"path/filepath"

	"verif/harness/internal/reng"
	"verif/harness/internal/vk"
)

// Debug builds a pre-state, traces one snapshot and prints the annotated trace (dev aid).
func Debug(scratch string) {
	reng.QuietLogs()
	reng.StartHolePuncher()
	os.MkdirAll(scratch, 0700)
	res := vk.NewResult("dbg")
	p := filepath.Join(scratch, "P")
	m, ok := reng.BuildPreState(p, vk.NewRand(7), 6, res)
	fmt.Println("prestate", ok, m.ChainNames())
	self, _ := os.Executable()
	rn := &runner{self: self, scratch: scratch, res: res, prop: "C08"}
	tr := filepath.Join(scratch, "ref.trace")
	out, st := rn.runVictim(p, VOp{Kind: "setcheckpoint", Name: "x"}, "", tr)
	fmt.Println(out, st)
	calls, end, err := ParseTrace(tr)
	fmt.Println(len(calls), end, err)
	for _, pt := range annotate(calls, p) {
		fmt.Printf("%-10s %-16s fd=%d ord=%d ret=%q path=%q\n", pt.Call.Name, pt.Class, pt.Call.FD, pt.Call.Ordinal, pt.Call.Ret, pt.Call.Path)
	}
}
