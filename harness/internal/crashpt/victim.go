// Package crashpt is engine E6: a victim process performs one replica
// operation on its locked main OS thread between two marker system calls;
// strace records the file-system calls of that thread and, in later runs,
// kills the process before the k-th call or makes exactly that call fail. A
// separate checker process then opens the resulting directory with the real
// code and compares it with the before/after models.
package crashpt

import (
	"encoding/json"
	"fmt"
	"os"
	"path/filepath"
	"runtime"
	"strconv"
	"syscall"

	"github.com/openebs/jiva/replica"
	"github.com/openebs/jiva/types"
	"github.com/openebs/sparse-tools/sparse"

	"verif/harness/internal/reng"
)

// VOp is the operation a victim performs.
type VOp struct {
	Kind   string `json:"kind"`
	Off    int64  `json:"off,omitempty"`
	Len    int64  `json:"len,omitempty"`
	WID    uint32 `json:"wid,omitempty"`
	Name   string `json:"name,omitempty"`
	User   bool   `json:"user,omitempty"`
	Size   int64  `json:"size,omitempty"`
	Flag   bool   `json:"flag,omitempty"`
	VolLen int64  `json:"vollen,omitempty"`
}

const (
	MarkBegin = "/__jvv_marker_begin__"
	MarkEnd   = "/__jvv_marker_end__"
)

type foldStub struct{}

func (foldStub) UpdateFoldFileProgress(progress int, done bool, err error) {}

// RunVictim opens the replica in dir and performs op between the markers.
// It prints "RESULT ok" or "RESULT err: ..." and exits without closing the
// replica (the process "dies" right after the operation returned).
func RunVictim(dir string, opJSON string) int {
	runtime.LockOSThread()
	reng.QuietLogs()
	var op VOp
	if err := json.Unmarshal([]byte(opJSON), &op); err != nil {
		fmt.Println("HARNESS bad op:", err)
		return 4
	}
	reng.StartHolePuncher()
	types.ShouldPunchHoles = false
	s := replica.NewServer("127.0.0.1:9502", dir, 512, "")
	if op.Kind != "open" {
		if err := s.Open(); err != nil {
			fmt.Println("HARNESS open failed:", err)
			return 5
		}
		if err := s.SetReplicaMode("RW"); err != nil {
			fmt.Println("HARNESS mode failed:", err)
			return 5
		}
	}
	syscall.Access(MarkBegin, 0)
	var err error
	switch op.Kind {
	case "open":
		err = s.Open()
	case "write":
		_, err = s.WriteAt(reng.Payload(op.Off, op.Len, op.WID), op.Off)
	case "snapshot":
		err = s.Snapshot(op.Name, op.User, "2026-01-01T00:00:00Z")
	case "markremoved":
		_, err = s.PrepareRemoveDisk(op.Name)
	case "remove":
		var acts []replica.PrepareRemoveAction
		acts, err = s.PrepareRemoveDisk(op.Name)
		if err == nil {
			for _, a := range acts {
				switch a.Action {
				case replica.OpCoalesce:
					err = sparse.FoldFile(filepath.Join(dir, a.Source), filepath.Join(dir, a.Target), foldStub{})
				case replica.OpRemove:
					err = s.RemoveDiffDisk(a.Source)
				}
				if err != nil {
					break
				}
			}
		}
	case "revert":
		err = s.Revert(op.Name, "2026-01-01T00:00:00Z")
	case "resize":
		err = s.Resize(strconv.FormatInt(op.Size, 10))
	case "setcheckpoint":
		err = s.SetCheckpoint(op.Name)
	case "setrebuilding":
		err = s.SetRebuilding(op.Flag)
	case "cloneinfo":
		err = s.UpdateCloneInfo(op.Name, "7")
	case "close":
		err = s.Close()
	case "reload":
		err = s.Reload()
	case "setrev":
		err = s.SetRevisionCounter(op.Size)
	default:
		fmt.Println("HARNESS unknown op", op.Kind)
		return 4
	}
	syscall.Access(MarkEnd, 0)
	if err != nil {
		fmt.Println("RESULT err:", err)
	} else {
		fmt.Println("RESULT ok")
	}
	os.Stdout.Sync()
	return 0
}
