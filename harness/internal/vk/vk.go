// Package vk holds the shared kit of the verification harness: seeded PRNG,
// worker result format, known-findings handling and evidence writing.
package vk

import (
	"encoding/json"
	"fmt"
	"hash/fnv"
	"os"
	"sort"
	"strconv"
)

// ---------------------------------------------------------------- PRNG

// Rand is a splitmix64 stream; all random choices of the harness come from
// such streams, derived from VERIF_SEED.
type Rand struct{ s uint64 }

func NewRand(seed uint64) *Rand { return &Rand{s: seed} }

func (r *Rand) U64() uint64 {
	r.s += 0x9e3779b97f4a7c15
	z := r.s
	z = (z ^ (z >> 30)) * 0xbf58476d1ce4e5b9
	z = (z ^ (z >> 27)) * 0x94d049bb133111eb
	return z ^ (z >> 31)
}

// Intn returns a value in [0,n).
func (r *Rand) Intn(n int) int {
	if n <= 0 {
		return 0
	}
	return int(r.U64() % uint64(n))
}

// Range returns a value in [lo,hi].
func (r *Rand) Range(lo, hi int) int {
	if hi <= lo {
		return lo
	}
	return lo + r.Intn(hi-lo+1)
}

func (r *Rand) Bool() bool          { return r.U64()&1 == 1 }
func (r *Rand) Chance(pct int) bool { return r.Intn(100) < pct }

// Pick chooses an index according to integer weights.
func (r *Rand) Pick(weights []int) int {
	tot := 0
	for _, w := range weights {
		tot += w
	}
	if tot <= 0 {
		return 0
	}
	x := r.Intn(tot)
	for i, w := range weights {
		if x < w {
			return i
		}
		x -= w
	}
	return len(weights) - 1
}

// Mix derives a sub-seed from a seed and labels.
func Mix(seed uint64, labels ...string) uint64 {
	h := fnv.New64a()
	var b [8]byte
	for i := 0; i < 8; i++ {
		b[i] = byte(seed >> (8 * i))
	}
	h.Write(b[:])
	for _, l := range labels {
		h.Write([]byte{0})
		h.Write([]byte(l))
	}
	return NewRand(h.Sum64()).U64()
}

// Seed returns VERIF_SEED (default 1).
func Seed() uint64 {
	if v := os.Getenv("VERIF_SEED"); v != "" {
		if n, err := strconv.ParseInt(v, 10, 64); err == nil {
			return uint64(n)
		}
		if n, err := strconv.ParseUint(v, 10, 64); err == nil {
			return n
		}
	}
	return 1
}

// ---------------------------------------------------------------- results

// Violation is one refuting observation.
type Violation struct {
	Property  string      `json:"property"`
	Signature string      `json:"signature"`
	What      string      `json:"what"`
	Seed      uint64      `json:"seed"`
	Case      int         `json:"case"`
	Witness   interface{} `json:"witness,omitempty"`
}

// Result is what a worker process reports to the driver.
type Result struct {
	Engine       string           `json:"engine"`
	Cases        int              `json:"cases"`
	Sigs         map[string]int   `json:"sigs"`     // signatures of non-trivial cases
	Counters     map[string]int64 `json:"counters"` // what the monitors observed
	Samples      []interface{}    `json:"samples"`
	Violations   []Violation      `json:"violations"`
	Inconclusive []string         `json:"inconclusive"`
	Notes        []string         `json:"notes"`
}

func NewResult(engine string) *Result {
	return &Result{Engine: engine, Sigs: map[string]int{}, Counters: map[string]int64{}}
}

func (r *Result) Count(k string, n int64) { r.Counters[k] += n }
func (r *Result) Sig(s string)            { r.Sigs[s]++ }
func (r *Result) Sample(s interface{}, max int) {
	if len(r.Samples) < max {
		r.Samples = append(r.Samples, s)
	}
}
func (r *Result) Violate(v Violation) {
	// keep one witness per (property, signature) per worker
	for _, o := range r.Violations {
		if o.Property == v.Property && o.Signature == v.Signature {
			r.Count("violations_dup", 1)
			return
		}
	}
	r.Violations = append(r.Violations, v)
}

func (r *Result) Merge(o *Result) {
	r.Cases += o.Cases
	for k, v := range o.Sigs {
		r.Sigs[k] += v
	}
	for k, v := range o.Counters {
		r.Counters[k] += v
	}
	for _, s := range o.Samples {
		if len(r.Samples) < 6 {
			r.Samples = append(r.Samples, s)
		}
	}
	for _, v := range o.Violations {
		r.Violate(v)
	}
	r.Inconclusive = append(r.Inconclusive, o.Inconclusive...)
	r.Notes = append(r.Notes, o.Notes...)
}

func (r *Result) WriteFile(path string) error {
	b, err := json.Marshal(r)
	if err != nil {
		return err
	}
	tmp := path + ".tmp"
	if err := os.WriteFile(tmp, b, 0644); err != nil {
		return err
	}
	return os.Rename(tmp, path)
}

func ReadResult(path string) (*Result, error) {
	b, err := os.ReadFile(path)
	if err != nil {
		return nil, err
	}
	r := NewResult("")
	if err := json.Unmarshal(b, r); err != nil {
		return nil, err
	}
	if r.Sigs == nil {
		r.Sigs = map[string]int{}
	}
	if r.Counters == nil {
		r.Counters = map[string]int64{}
	}
	return r, nil
}

// ---------------------------------------------------------------- known findings

type Finding struct {
	Property  string `json:"property"`
	Signature string `json:"signature"`
	Status    string `json:"status"` // "known" | "fixed"
	Commit    string `json:"commit,omitempty"`
	What      string `json:"what"`
}

type Findings struct {
	Findings []Finding `json:"findings"`
}

func LoadFindings(path string) (*Findings, error) {
	b, err := os.ReadFile(path)
	if err != nil {
		if os.IsNotExist(err) {
			return &Findings{}, nil
		}
		return nil, err
	}
	f := &Findings{}
	if err := json.Unmarshal(b, f); err != nil {
		return nil, fmt.Errorf("known_findings.json: %v", err)
	}
	return f, nil
}

// Known reports whether a violation is listed as a known (unrepaired) finding.
func (f *Findings) Known(property, sig string) *Finding {
	for i := range f.Findings {
		k := &f.Findings[i]
		if k.Status == "known" && k.Property == property && k.Signature == sig {
			return k
		}
	}
	return nil
}

// ---------------------------------------------------------------- evidence

type Evidence struct {
	PropertyID  string                 `json:"property_id"`
	Tier        string                 `json:"tier"`
	Seed        int64                  `json:"seed"`
	Level       string                 `json:"level"`
	Coverage    map[string]interface{} `json:"coverage"`
	Assumptions []string               `json:"assumptions"`
	WallS       float64                `json:"wall_s"`
	Violations  int                    `json:"violations"`
}

func (e *Evidence) Write(path string) error {
	b, err := json.MarshalIndent(e, "", " ")
	if err != nil {
		return err
	}
	tmp := path + ".tmp"
	if err := os.WriteFile(tmp, b, 0644); err != nil {
		return err
	}
	return os.Rename(tmp, path)
}

func SortedKeys(m map[string]int) []string {
	ks := make([]string, 0, len(m))
	for k := range m {
		ks = append(ks, k)
	}
	sort.Strings(ks)
	return ks
}

// Perm returns a seeded permutation of 0..n-1.
func (r *Rand) Perm(n int) []int {
	p := make([]int, n)
	for i := range p {
		p[i] = i
	}
	for i := n - 1; i > 0; i-- {
		j := r.Intn(i + 1)
		p[i], p[j] = p[j], p[i]
	}
	return p
}
