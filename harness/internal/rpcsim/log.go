package rpcsim

import "verif/harness/internal/reng"

func quietLogs() { reng.QuietLogs() }
