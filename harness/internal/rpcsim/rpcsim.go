// Package rpcsim is engine E3: the real data-path RPC code (rpc.Client,
// rpc.Wire, rpc.Server) against a scripted peer that speaks the wire format
// through the harness's own, independent codec and answers in seeded order,
// stalls, closes, resets or corrupts the stream.
package rpcsim

import (
	"bytes"
	"encoding/binary"
	"fmt"
	"io"
	"net"
	"sort"
	"sync"
	"sync/atomic"
	"time"

	"github.com/anishathalye/porcupine"
	"github.com/openebs/jiva/rpc"
	"github.com/openebs/jiva/types"

	"verif/harness/internal/vk"
)

const magic = uint16(0x1b03)

// Frame is the harness's own view of a wire frame.
type Frame struct {
	Magic  uint16
	Seq    uint32
	Type   uint32
	Offset int64
	Size   int64
	Data   []byte
}

// independent codec (little endian: magic u16, seq u32, type u32, offset i64, size i64, len u32, data)
func writeFrame(w io.Writer, f *Frame) error {
	var b bytes.Buffer
	binary.Write(&b, binary.LittleEndian, f.Magic)
	binary.Write(&b, binary.LittleEndian, f.Seq)
	binary.Write(&b, binary.LittleEndian, f.Type)
	binary.Write(&b, binary.LittleEndian, f.Offset)
	binary.Write(&b, binary.LittleEndian, f.Size)
	binary.Write(&b, binary.LittleEndian, uint32(len(f.Data)))
	b.Write(f.Data)
	_, err := w.Write(b.Bytes())
	return err
}

func readFrame(r io.Reader) (*Frame, error) {
	var hdr [30]byte
	if _, err := io.ReadFull(r, hdr[:]); err != nil {
		return nil, err
	}
	f := &Frame{}
	f.Magic = binary.LittleEndian.Uint16(hdr[0:])
	f.Seq = binary.LittleEndian.Uint32(hdr[2:])
	f.Type = binary.LittleEndian.Uint32(hdr[6:])
	f.Offset = int64(binary.LittleEndian.Uint64(hdr[10:]))
	f.Size = int64(binary.LittleEndian.Uint64(hdr[18:]))
	n := binary.LittleEndian.Uint32(hdr[26:])
	if n > 0 {
		f.Data = make([]byte, n)
		if _, err := io.ReadFull(r, f.Data); err != nil {
			return nil, err
		}
	}
	return f, nil
}

func tcpPair() (*net.TCPConn, *net.TCPConn, error) {
	l, err := net.Listen("tcp", "127.0.0.1:0")
	if err != nil {
		return nil, nil, err
	}
	defer l.Close()
	ch := make(chan net.Conn, 1)
	go func() {
		c, _ := l.Accept()
		ch <- c
	}()
	a, err := net.Dial("tcp", l.Addr().String())
	if err != nil {
		return nil, nil, err
	}
	b := <-ch
	if b == nil {
		return nil, nil, fmt.Errorf("accept failed")
	}
	return a.(*net.TCPConn), b.(*net.TCPConn), nil
}

// prfBytes is the content a read of (offset,size) must return / a write must carry.
func prfBytes(offset, size int64, salt uint64) []byte {
	out := make([]byte, size)
	x := uint64(offset)*0x9e3779b97f4a7c15 ^ uint64(size)*0xbf58476d1ce4e5b9 ^ salt
	for i := 0; i < len(out); i += 8 {
		x += 0x9e3779b97f4a7c15
		z := x
		z = (z ^ (z >> 30)) * 0xbf58476d1ce4e5b9
		z = (z ^ (z >> 27)) * 0x94d049bb133111eb
		z ^= z >> 31
		for k := 0; k < 8 && i+k < len(out); k++ {
			out[i+k] = byte(z >> (8 * k))
		}
	}
	return out
}

type ctx struct {
	res  *vk.Result
	prop string
	seed uint64
	cas  int
	dead bool
}

func (c *ctx) fail(sig, what string, wit interface{}) {
	c.dead = true
	c.res.Violate(vk.Violation{Property: "C15", Signature: sig, What: what, Seed: c.seed, Case: c.cas, Witness: wit})
}

// ---------------------------------------------------------------- (a) codec

func codecScenario(c *ctx, r *vk.Rand) {
	a, b, err := tcpPair()
	if err != nil {
		c.res.Inconclusive = append(c.res.Inconclusive, "tcp pair: "+err.Error())
		return
	}
	defer a.Close()
	defer b.Close()
	lens := []int{0, 1, 2, 511, 512, 4096, 8095, 8096, 8097, 16192, 65536, r.Range(1, 1<<20)}
	ints := []int64{0, 1, -1, 4096, 1 << 31, 1<<31 - 1, 1 << 32, -1 << 31, 1<<63 - 1, -1 << 63, int64(r.U64())}
	var frames []*Frame
	n := r.Range(20, 60)
	for i := 0; i < n; i++ {
		f := &Frame{Magic: magic, Seq: uint32(r.U64()), Type: uint32(r.Intn(10)), Offset: ints[r.Intn(len(ints))], Size: ints[r.Intn(len(ints))]}
		if r.Chance(20) {
			f.Seq = []uint32{0, 1, 1<<32 - 1, 1 << 31}[r.Intn(4)]
		}
		f.Data = prfBytes(int64(i), int64(lens[r.Intn(len(lens))]), r.U64())
		frames = append(frames, f)
	}
	// direction 1: real Wire.Write -> independent decoder; direction 2: independent encoder -> real Wire.Read
	dir := r.Intn(2)
	writers := r.Range(1, 8)
	var wg sync.WaitGroup
	var got []*Frame
	done := make(chan error, 1)
	if dir == 0 {
		w := rpc.NewWire(a)
		go func() {
			for range frames {
				f, err := readFrame(b)
				if err != nil {
					done <- err
					return
				}
				got = append(got, f)
			}
			done <- nil
		}()
		per := make([][]*Frame, writers)
		for i, f := range frames {
			per[i%writers] = append(per[i%writers], f)
		}
		for g := 0; g < writers; g++ {
			wg.Add(1)
			go func(fs []*Frame) {
				defer wg.Done()
				for _, f := range fs {
					if err := w.Write(&rpc.Message{MagicVersion: f.Magic, Seq: f.Seq, Type: f.Type, Offset: f.Offset, Size: f.Size, Data: f.Data}); err != nil {
						return
					}
				}
			}(per[g])
		}
		wg.Wait()
	} else {
		w := rpc.NewWire(b)
		go func() {
			for range frames {
				m, err := w.Read()
				if err != nil {
					done <- err
					return
				}
				got = append(got, &Frame{Magic: m.MagicVersion, Seq: m.Seq, Type: m.Type, Offset: m.Offset, Size: m.Size, Data: m.Data})
			}
			done <- nil
		}()
		var mu sync.Mutex
		for _, f := range frames {
			mu.Lock()
			writeFrame(a, f)
			mu.Unlock()
		}
	}
	select {
	case err := <-done:
		if err != nil {
			c.fail("codec:stream-broken", fmt.Sprintf("reading %d frames (direction %d, %d writers) failed: %v", len(frames), dir, writers, err), nil)
			return
		}
	case <-time.After(60 * time.Second):
		c.fail("codec:frames-lost", fmt.Sprintf("only %d of %d frames arrived (direction %d, %d concurrent writers)", len(got), len(frames), dir, writers), nil)
		return
	}
	key := func(f *Frame) string {
		return fmt.Sprintf("%d/%d/%d/%d/%d/%x", f.Magic, f.Seq, f.Type, f.Offset, f.Size, f.Data)
	}
	var ks, kg []string
	for _, f := range frames {
		ks = append(ks, key(f))
	}
	for _, f := range got {
		kg = append(kg, key(f))
	}
	if writers == 1 || dir == 1 {
		for i := range ks {
			if ks[i] != kg[i] {
				c.fail("codec:frame-changed", fmt.Sprintf("frame %d changed in transit (direction %d): sent type=%d seq=%d off=%d size=%d len=%d, got type=%d seq=%d off=%d size=%d len=%d", i, dir,
					frames[i].Type, frames[i].Seq, frames[i].Offset, frames[i].Size, len(frames[i].Data), got[i].Type, got[i].Seq, got[i].Offset, got[i].Size, len(got[i].Data)), nil)
				return
			}
		}
	} else {
		sort.Strings(ks)
		sort.Strings(kg)
		for i := range ks {
			if ks[i] != kg[i] {
				c.fail("codec:frames-interleaved", fmt.Sprintf("%d concurrent writers on one Wire: the multiset of frames read differs from the frames written", writers), nil)
				return
			}
		}
	}
	c.res.Count("codec_frames", int64(len(frames)))
	c.res.Sig(fmt.Sprintf("codec:dir%d:w%d", dir, writers))
	// malformed streams end in an error, not in a hang or a bogus frame
	a2, b2, err := tcpPair()
	if err != nil {
		return
	}
	w2 := rpc.NewWire(b2)
	kind := r.Intn(3)
	switch kind {
	case 0:
		writeFrame(a2, &Frame{Magic: 0x1234, Seq: 1, Type: 2})
	case 1:
		var bb bytes.Buffer
		writeFrame(&bb, &Frame{Magic: magic, Seq: 1, Type: 2, Data: prfBytes(1, 100, 1)})
		a2.Write(bb.Bytes()[:r.Range(1, bb.Len()-1)])
	case 2:
	}
	a2.Close()
	errc := make(chan error, 1)
	go func() { _, err := w2.Read(); errc <- err }()
	select {
	case err := <-errc:
		if err == nil {
			c.fail("codec:malformed-accepted", fmt.Sprintf("Wire.Read returned a frame for a malformed stream (kind %d)", kind), nil)
		}
	case <-time.After(30 * time.Second):
		c.fail("codec:malformed-hangs", fmt.Sprintf("Wire.Read hangs on a closed malformed stream (kind %d)", kind), nil)
	}
	b2.Close()
	c.res.Count("malformed_streams", 1)
}

// ---------------------------------------------------------------- scripted peer

type peer struct {
	conn     *net.TCPConn
	r        *vk.Rand
	window   int
	mu       sync.Mutex
	pending  []*Frame
	recv     map[string]int // request identity -> number of frames received
	salt     uint64
	badWrite int32
	closed   int32
	// fault script
	faultAt   int    // after this many requests
	faultKind string // "", stall, close, reset, garbage, late
	lateFor   time.Duration
	received  int32
	replies   int32
	inversion int64
	stop      chan struct{}
}

func reqID(f *Frame) string { return fmt.Sprintf("%d:%d:%d", f.Type, f.Offset, f.Size) }

func (p *peer) reply(f *Frame) {
	out := &Frame{Magic: magic, Seq: f.Seq, Type: rpc.TypeResponse, Offset: f.Offset}
	switch f.Type {
	case rpc.TypeRead:
		out.Data = prfBytes(f.Offset, f.Size, p.salt)
		out.Size = int64(len(out.Data))
	case rpc.TypeWrite:
		if !bytes.Equal(f.Data, prfBytes(f.Offset, int64(len(f.Data)), p.salt^1)) {
			atomic.AddInt32(&p.badWrite, 1)
		}
		out.Size = int64(len(f.Data))
	default:
		out.Size = 0
	}
	// reply variants that must not confuse the client: an error or EOF answer for offsets that ask for it
	if f.Type == rpc.TypeRead && f.Offset%7 == 3 {
		out.Type = rpc.TypeError
		out.Data = []byte(fmt.Sprintf("peer-error-%d", f.Offset))
		out.Size = int64(len(out.Data))
	}
	p.mu.Lock()
	writeFrame(p.conn, out)
	p.mu.Unlock()
	atomic.AddInt32(&p.replies, 1)
}

// serve reads requests and answers them out of order inside a bounded window.
func (p *peer) serve() {
	in := make(chan *Frame, 4096)
	go func() {
		for {
			f, err := readFrame(p.conn)
			if err != nil {
				close(in)
				return
			}
			in <- f
		}
	}()
	flush := func(all bool) {
		for len(p.pending) > 0 && (all || len(p.pending) > p.window) {
			i := p.r.Intn(len(p.pending))
			if !all && p.r.Chance(50) {
				i = 0 // the oldest one: nobody waits longer than the window
			}
			if len(p.pending) > p.window {
				i = 0
			}
			p.inversion += int64(i)
			f := p.pending[i]
			p.pending = append(p.pending[:i], p.pending[i+1:]...)
			p.reply(f)
			if p.r.Chance(5) { // a duplicate and an unknown sequence number now and then
				p.reply(f)
				p.mu.Lock()
				writeFrame(p.conn, &Frame{Magic: magic, Seq: f.Seq + 1000000, Type: rpc.TypeResponse})
				p.mu.Unlock()
			}
		}
	}
	tick := time.NewTicker(2 * time.Millisecond)
	defer tick.Stop()
	for {
		select {
		case f, ok := <-in:
			if !ok {
				return
			}
			n := int(atomic.AddInt32(&p.received, 1))
			if f.Type == rpc.TypeRead || f.Type == rpc.TypeWrite || f.Type == rpc.TypeUnmap {
				// syncs and pings carry no distinguishing fields
				p.mu.Lock()
				p.recv[reqID(f)]++
				p.mu.Unlock()
			}
			if p.faultKind != "" && n == p.faultAt {
				switch p.faultKind {
				case "stall":
					<-p.stop
					return
				case "late":
					time.Sleep(p.lateFor)
					p.reply(f)
					p.faultKind = ""
					continue
				case "close":
					atomic.StoreInt32(&p.closed, 1)
					p.conn.Close()
					return
				case "fin":
					// an orderly shutdown: everything sent so far was a whole frame, FIN follows,
					// and the requests still arriving are consumed (no reset)
					atomic.StoreInt32(&p.closed, 1)
					p.mu.Lock()
					p.conn.CloseWrite()
					p.mu.Unlock()
					for {
						select {
						case _, ok := <-in:
							if !ok {
								return
							}
						case <-p.stop:
							return
						}
					}
				case "reset":
					atomic.StoreInt32(&p.closed, 1)
					p.conn.SetLinger(0)
					p.conn.Close()
					return
				case "garbage":
					p.mu.Lock()
					p.conn.Write(prfBytes(1, 64, 9))
					p.mu.Unlock()
					<-p.stop
					return
				}
			}
			p.pending = append(p.pending, f)
			flush(false)
		case <-tick.C:
			flush(true)
		case <-p.stop:
			return
		}
	}
}

// ---------------------------------------------------------------- (b)+(d) matching and failure

type callRec struct {
	G       int
	Op      string
	Off     int64
	Size    int64
	Err     string
	Took    time.Duration
	Started time.Duration
}

func matchScenario(c *ctx, r *vk.Rand, fault string) {
	a, b, err := tcpPair()
	if err != nil {
		c.res.Inconclusive = append(c.res.Inconclusive, "tcp pair: "+err.Error())
		return
	}
	closeChan := make(chan struct{}, 64)
	cl := rpc.NewClient(a, closeChan)
	K := []int{1, 2, 8, 64, 256}[r.Intn(5)]
	per := 2000 / K
	if fault != "" {
		per = 400/K + 2
	}
	p := &peer{conn: b, r: vk.NewRand(r.U64()), window: r.Range(1, 32), recv: map[string]int{}, salt: r.U64(), stop: make(chan struct{})}
	total := K * per
	if fault == "slow-ops-stall" {
		p.faultKind = "stall"
		p.faultAt = r.Range(1, total/2+1)
	} else if fault != "" {
		p.faultKind = fault
		p.faultAt = r.Range(1, total*3/4+1)
		p.lateFor = 1900 * time.Millisecond
	}
	if fault == "fin" {
		// deadlines far away: a call that fails with the deadline error only noticed the close by timing out
		types.RPCReadTimeout, types.RPCWriteTimeout = 8*time.Second, 8*time.Second
		rpc.SetRPCTimeout()
		defer func() {
			types.RPCReadTimeout, types.RPCWriteTimeout = time.Second, time.Second
			rpc.SetRPCTimeout()
		}()
	}
	go p.serve()
	defer close(p.stop)
	defer b.Close()
	t0 := time.Now()
	var wg sync.WaitGroup
	recs := make([][]callRec, K)
	var mismatch atomic.Value
	var lateOK int32
	for g := 0; g < K; g++ {
		wg.Add(1)
		go func(g int) {
			defer wg.Done()
			rr := vk.NewRand(uint64(g)*7919 + p.salt)
			for i := 0; i < per; i++ {
				// unique (offset,size) per request: offset encodes goroutine and index
				off := int64(g)*1000000 + int64(i)*8
				size := int64(rr.Range(1, 64)) * 64
				op := []string{"read", "read", "write", "sync", "ping", "unmap"}[rr.Intn(6)]
				if fault != "" && fault != "slow-ops-stall" {
					// only reads and writes have a settable (1 s) deadline; sync/unmap wait 30 s and ping 40 s by constant
					op = []string{"read", "write"}[rr.Intn(2)]
				}
				if fault == "slow-ops-stall" {
					op = []string{"sync", "ping", "unmap"}[rr.Intn(3)]
				}
				st := time.Since(t0)
				var err error
				switch op {
				case "read":
					buf := make([]byte, size)
					var n int
					n, err = cl.ReadAt(buf, off)
					if off%7 == 3 {
						if err == nil || err.Error() != fmt.Sprintf("peer-error-%d", off) {
							if err == nil || !transportErr(err) {
								mismatch.Store(fmt.Sprintf("read at %d must fail with the peer's error for this request, got %v", off, err))
							}
						}
						if err != nil && !transportErr(err) {
							err = nil // the expected per-request error is not a transport failure
						}
					} else if err == nil {
						if int64(n) != size || !bytes.Equal(buf, prfBytes(off, size, p.salt)) {
							mismatch.Store(fmt.Sprintf("read(offset=%d,size=%d) by goroutine %d returned n=%d and the reply of another request or a damaged payload", off, size, g, n))
						}
					}
				case "write":
					_, err = cl.WriteAt(prfBytes(off, size, p.salt^1), off)
				case "sync":
					_, err = cl.Sync()
				case "ping":
					err = cl.Ping()
				case "unmap":
					_, err = cl.Unmap(off, size)
				}
				rec := callRec{G: g, Op: op, Off: off, Size: size, Took: time.Since(t0) - st, Started: st}
				if err != nil {
					rec.Err = err.Error()
				} else if fault == "late" {
					atomic.AddInt32(&lateOK, 1)
				}
				recs[g] = append(recs[g], rec)
				if err != nil && fault != "" {
					// after a transport failure every later call must fail at once
				}
			}
		}(g)
	}
	finished := make(chan struct{})
	go func() { wg.Wait(); close(finished) }()
	bound := 60 * time.Second
	if fault == "slow-ops-stall" {
		bound = 150 * time.Second // 40 s ping deadline + 2 s grace, generously
	}
	select {
	case <-finished:
	case <-time.After(bound):
		c.fail("hang:"+faultName(fault), fmt.Sprintf("calls still pending %v after the peer %s (K=%d): a request hangs instead of failing", bound, faultName(fault), K), map[string]interface{}{"fault": fault, "K": K, "fault_at": p.faultAt})
		return
	}
	c.res.Count("rpc_calls", int64(total))
	c.res.Count("rpc_replies_reordered_distance", p.inversion)
	c.res.Sig(fmt.Sprintf("match:K%d:w%d:%s:inv%d", K, p.window, faultName(fault), bucket(p.inversion)))
	if m := mismatch.Load(); m != nil {
		c.fail("reply-misdelivered", m.(string), map[string]interface{}{"K": K, "window": p.window, "fault": fault})
		return
	}
	if atomic.LoadInt32(&p.badWrite) > 0 {
		c.fail("request-frame-damaged", fmt.Sprintf("%d write frames reached the peer with a payload that is not the caller's", p.badWrite), nil)
		return
	}
	dup := 0
	p.mu.Lock()
	for _, n := range p.recv {
		if n > 1 {
			dup++
		}
	}
	p.mu.Unlock()
	if dup > 0 {
		c.fail("request-sent-twice", fmt.Sprintf("%d requests reached the peer more than once (K=%d, fault %s)", dup, K, faultName(fault)), nil)
		return
	}
	notified := len(closeChan) > 0
	switch fault {
	case "":
		for g := range recs {
			for _, rc := range recs[g] {
				if rc.Err != "" {
					c.fail("call-failed-without-fault", fmt.Sprintf("%s(offset=%d) failed with %q although the peer answered every request", rc.Op, rc.Off, rc.Err), nil)
					return
				}
			}
		}
	default:
		// every call issued after the first failure returned must fail, and promptly
		var firstFail time.Duration = -1
		for g := range recs {
			for _, rc := range recs[g] {
				if rc.Err != "" && (firstFail < 0 || rc.Started+rc.Took < firstFail) {
					firstFail = rc.Started + rc.Took
				}
			}
		}
		if firstFail < 0 {
			if fault == "late" && atomic.LoadInt32(&p.received) >= int32(p.faultAt) {
				c.fail("deadline-not-enforced", fmt.Sprintf("the peer answered one request %v after it arrived (deadline 1s) and no call failed (K=%d)", p.lateFor, K), nil)
				return
			}
			if atomic.LoadInt32(&p.received) >= int32(p.faultAt) {
				c.fail("fault-unnoticed:"+fault, fmt.Sprintf("the peer %s at request %d but no call failed", faultName(fault), p.faultAt), nil)
				return
			}
			c.res.Count("fault_not_reached", 1)
			return
		}
		if fault == "fin" {
			for g := range recs {
				for _, rc := range recs[g] {
					if rc.Err == "r/w timeout" {
						c.fail("close-noticed-only-by-deadline", fmt.Sprintf("the peer shut the connection down in an orderly way, yet %s(offset=%d) failed %v later with the 8 s deadline error: pending requests hang until their deadline instead of failing with the connection", rc.Op, rc.Off, rc.Took), nil)
						return
					}
				}
			}
		}
		for g := range recs {
			for _, rc := range recs[g] {
				if rc.Started > firstFail+50*time.Millisecond && rc.Err == "" {
					c.fail("call-succeeded-after-connection-failed:"+fault, fmt.Sprintf("%s(offset=%d) started %v after the first failure and succeeded", rc.Op, rc.Off, rc.Started-firstFail), nil)
					return
				}
				if rc.Took > 25*time.Second && fault != "slow-ops-stall" {
					c.fail("slow-failure:"+fault, fmt.Sprintf("%s(offset=%d) took %v to return after the peer %s (deadline 1s + 2s client grace)", rc.Op, rc.Off, rc.Took, faultName(fault)), nil)
					return
				}
			}
		}
		if !notified {
			// the notification is sent before pending calls are failed; give it a moment
			time.Sleep(100 * time.Millisecond)
			notified = len(closeChan) > 0
		}
		if !notified {
			c.fail("failure-not-reported:"+fault, fmt.Sprintf("the connection failed (%s) but nothing was sent on the close channel, so the replica would not be detached", faultName(fault)), nil)
			return
		}
		c.res.Count("failures_detected", 1)
	}
}

func transportErr(err error) bool {
	s := err.Error()
	return s == "r/w timeout" || s == "Ping timeout" || s == "EOF" || bytes.Contains([]byte(s), []byte("connection")) || bytes.Contains([]byte(s), []byte("closed")) || bytes.Contains([]byte(s), []byte("reset")) || bytes.Contains([]byte(s), []byte("Wrong API version")) || bytes.Contains([]byte(s), []byte("broken pipe"))
}

func faultName(f string) string {
	if f == "" {
		return "none"
	}
	return f
}

func bucket(n int64) int {
	b := 0
	for n > 0 {
		n /= 4
		b++
	}
	return b
}

// ---------------------------------------------------------------- (c) end to end with the real server, linearizability

type memStore struct {
	mu   sync.Mutex
	data []byte
	r    *vk.Rand
}

// refusal is what the store answers for I/O at or beyond its end (the offset one block past the data is used by
// the callers on purpose): a per-request error that the server must send back as the reply to that very request.
func refusal(off int64) error { return fmt.Errorf("store refuses offset %d", off) }

func (m *memStore) ReadAt(b []byte, off int64) (int, error) {
	m.mu.Lock()
	defer m.mu.Unlock()
	if off+int64(len(b)) > int64(len(m.data)) {
		return 0, refusal(off)
	}
	copy(b, m.data[off:off+int64(len(b))])
	return len(b), nil
}
func (m *memStore) WriteAt(b []byte, off int64) (int, error) {
	m.mu.Lock()
	defer m.mu.Unlock()
	if off+int64(len(b)) > int64(len(m.data)) {
		return 0, refusal(off)
	}
	copy(m.data[off:], b)
	return len(b), nil
}
func (m *memStore) Sync() (int, error)            { return 0, nil }
func (m *memStore) Unmap(o, l int64) (int, error) { return 0, nil }
func (m *memStore) Close() error                  { return nil }
func (m *memStore) PingResponse() error           { return nil }

type regIn struct {
	Block int
	Write bool
	Val   uint64
}

func e2eScenario(c *ctx, r *vk.Rand) {
	a, b, err := tcpPair()
	if err != nil {
		return
	}
	nblocks := r.Range(2, 6)
	st := &memStore{data: make([]byte, nblocks*4096)}
	srv := rpc.NewServer(b, st)
	go srv.Handle()
	cl := rpc.NewClient(a, make(chan struct{}, 8))
	defer a.Close()
	defer b.Close()
	K := r.Range(2, 12)
	per := 1200 / K
	var mu sync.Mutex
	var ops []porcupine.Operation
	t0 := time.Now()
	var wg sync.WaitGroup
	var next uint64 = 1
	bad := int32(0)
	var refused int64
	var refusedBad atomic.Value
	for g := 0; g < K; g++ {
		wg.Add(1)
		go func(g int) {
			defer wg.Done()
			rr := vk.NewRand(uint64(g+1) * 104729)
			for i := 0; i < per; i++ {
				blk := rr.Intn(nblocks)
				buf := make([]byte, 4096)
				if rr.Chance(4) {
					// a request the store refuses: its caller - and nobody else - gets the store's error, at once
					off := int64(nblocks)*4096 + int64(g)*4096
					t := time.Now()
					var err error
					if rr.Bool() {
						_, err = cl.WriteAt(buf, off)
					} else {
						_, err = cl.ReadAt(buf, off)
					}
					atomic.AddInt64(&refused, 1)
					if err == nil || err.Error() != refusal(off).Error() {
						refusedBad.Store(fmt.Sprintf("a request at offset %d that the store refused with %q returned %v after %v", off, refusal(off), err, time.Since(t)))
						return
					}
					continue
				}
				if rr.Chance(50) {
					v := atomic.AddUint64(&next, 1)
					for k := 0; k < 4096; k += 8 {
						binary.LittleEndian.PutUint64(buf[k:], v)
					}
					call := time.Since(t0).Nanoseconds()
					_, err := cl.WriteAt(buf, int64(blk)*4096)
					ret := time.Since(t0).Nanoseconds()
					if err != nil {
						atomic.AddInt32(&bad, 1)
						return
					}
					mu.Lock()
					ops = append(ops, porcupine.Operation{ClientId: g, Input: regIn{blk, true, v}, Call: call, Output: uint64(0), Return: ret})
					mu.Unlock()
				} else {
					call := time.Since(t0).Nanoseconds()
					_, err := cl.ReadAt(buf, int64(blk)*4096)
					ret := time.Since(t0).Nanoseconds()
					if err != nil {
						atomic.AddInt32(&bad, 1)
						return
					}
					v := binary.LittleEndian.Uint64(buf)
					for k := 8; k < 4096; k += 8 {
						if binary.LittleEndian.Uint64(buf[k:]) != v {
							v = ^uint64(0) // torn: never a legal register value
						}
					}
					mu.Lock()
					ops = append(ops, porcupine.Operation{ClientId: g, Input: regIn{blk, false, 0}, Call: call, Output: v, Return: ret})
					mu.Unlock()
				}
			}
		}(g)
	}
	wg.Wait()
	c.res.Count("e2e_refused_requests", atomic.LoadInt64(&refused))
	if m := refusedBad.Load(); m != nil {
		c.fail("e2e:error-reply-not-delivered", m.(string)+" (the error reply did not reach the request that caused it)", nil)
		return
	}
	if bad > 0 {
		c.fail("e2e:call-failed", "calls through the real rpc server failed without any fault", nil)
		return
	}
	model := porcupine.Model{
		Partition: func(h []porcupine.Operation) [][]porcupine.Operation {
			m := map[int][]porcupine.Operation{}
			for _, o := range h {
				b := o.Input.(regIn).Block
				m[b] = append(m[b], o)
			}
			var out [][]porcupine.Operation
			for _, v := range m {
				out = append(out, v)
			}
			return out
		},
		Init: func() interface{} { return uint64(0) },
		Step: func(st, in, out interface{}) (bool, interface{}) {
			i := in.(regIn)
			if i.Write {
				return true, i.Val
			}
			return out.(uint64) == st.(uint64), st
		},
	}
	resu, _ := porcupine.CheckOperationsVerbose(model, ops, 2*time.Minute)
	c.res.Count("e2e_operations", int64(len(ops)))
	c.res.Sig(fmt.Sprintf("e2e:K%d:b%d", K, nblocks))
	switch resu {
	case porcupine.Illegal:
		c.fail("e2e:not-linearizable", fmt.Sprintf("history of %d block reads/writes by %d concurrent callers through rpc.Client/rpc.Server is not linearizable as a register per block (a reply carried another request's data, offset or size)", len(ops), K), nil)
	case porcupine.Unknown:
		c.res.Inconclusive = append(c.res.Inconclusive, "porcupine timed out")
	default:
		c.res.Count("e2e_histories_linearizable", 1)
	}
}

// deadlineScenario: reads and writes have separately configured deadlines and
// each is enforced for its own operation. One request is answered 3 s late;
// with a 1 s deadline for its type the call must fail (and the failure be
// reported), with a 5 s deadline it must succeed.
func deadlineScenario(c *ctx, r *vk.Rand, variant int) {
	a, b, err := tcpPair()
	if err != nil {
		c.res.Inconclusive = append(c.res.Inconclusive, "tcp pair: "+err.Error())
		return
	}
	defer a.Close()
	defer b.Close()
	victim := []uint32{rpc.TypeRead, rpc.TypeWrite}[variant&1]
	mustFail := variant&2 != 0
	short, long := time.Second, 5*time.Second
	rd, wr := long, short
	if (victim == rpc.TypeRead) == mustFail {
		rd, wr = short, long
	}
	types.RPCReadTimeout, types.RPCWriteTimeout = rd, wr
	rpc.SetRPCTimeout()
	defer func() {
		types.RPCReadTimeout, types.RPCWriteTimeout = time.Second, time.Second
		rpc.SetRPCTimeout()
	}()
	closeChan := make(chan struct{}, 8)
	cl := rpc.NewClient(a, closeChan)
	warm := r.Range(1, 6)
	var sentAfter time.Duration
	var delayed int32
	done := make(chan struct{})
	go func() {
		defer close(done)
		n := 0
		for {
			f, err := readFrame(b)
			if err != nil {
				return
			}
			out := &Frame{Magic: magic, Seq: f.Seq, Type: rpc.TypeResponse, Offset: f.Offset}
			if f.Type == rpc.TypeRead {
				out.Data = prfBytes(f.Offset, f.Size, 5)
				out.Size = f.Size
			} else {
				out.Size = int64(len(f.Data))
			}
			if f.Type == victim {
				n++
				if n == warm+1 {
					t := time.Now()
					time.Sleep(3 * time.Second)
					if writeFrame(b, out) == nil {
						sentAfter = time.Since(t)
						atomic.StoreInt32(&delayed, 1)
					}
					continue
				}
			}
			writeFrame(b, out)
		}
	}()
	call := func(t uint32, off int64) error {
		if t == rpc.TypeRead {
			_, err := cl.ReadAt(make([]byte, 512), off)
			return err
		}
		_, err := cl.WriteAt(prfBytes(off, 512, 6), off)
		return err
	}
	other := rpc.TypeRead + rpc.TypeWrite - victim
	for i := 0; i < warm; i++ {
		if err := call(victim, int64(i)*512); err != nil {
			c.fail("call-failed-without-fault", fmt.Sprintf("warm-up call failed: %v", err), nil)
			return
		}
		if err := call(other, int64(i)*512); err != nil {
			c.fail("call-failed-without-fault", fmt.Sprintf("warm-up call failed: %v", err), nil)
			return
		}
	}
	t := time.Now()
	err = call(victim, 1<<20)
	took := time.Since(t)
	name := map[uint32]string{rpc.TypeRead: "read", rpc.TypeWrite: "write"}[victim]
	cfg := map[string]interface{}{"victim": name, "read_deadline": rd.String(), "write_deadline": wr.String(), "reply_delay": "3s", "took": took.String()}
	c.res.Count("deadline_cases", 1)
	c.res.Sig(fmt.Sprintf("deadline:%s:mustfail=%v", name, mustFail))
	if mustFail {
		if err == nil {
			c.fail("deadline-not-enforced:"+name, fmt.Sprintf("a %s with a %v deadline (the other operation's is %v) was answered 3 s late and succeeded after %v", name, short, long, took), cfg)
			return
		}
		time.Sleep(100 * time.Millisecond)
		if len(closeChan) == 0 {
			c.fail("failure-not-reported:deadline", "a request exceeded its deadline but nothing was sent on the close channel", cfg)
		}
		return
	}
	if err != nil {
		if took > 4500*time.Millisecond {
			c.res.Count("deadline_cases_too_slow_to_judge", 1)
			return
		}
		c.fail("failed-before-its-deadline:"+name, fmt.Sprintf("a %s with a %v deadline (the other operation's is %v) was answered 3 s late and failed after %v with %q", name, long, short, took, err.Error()), cfg)
		return
	}
	_ = sentAfter
	_ = delayed
}

// mixedDeadlineStall: the peer stops answering while requests with different
// deadlines are pending (reads 1 s, writes 20 s). When the first read exceeds
// its deadline the connection is declared failed: every other pending request
// must then fail with it (about 2 s later, the client's grace) instead of
// being left to its own, much later deadline; the failure is reported; calls
// made afterwards fail at once. The bound used for "with it" is 12 s, four
// times what the unchanged client needs and well below the writes' own 20 s;
// a scheduling gap seen by a heartbeat goroutine makes the case inconclusive.
func mixedDeadlineStall(c *ctx, r *vk.Rand) {
	a, b, err := tcpPair()
	if err != nil {
		c.res.Inconclusive = append(c.res.Inconclusive, "tcp pair: "+err.Error())
		return
	}
	defer a.Close()
	defer b.Close()
	types.RPCReadTimeout, types.RPCWriteTimeout = time.Second, 20*time.Second
	rpc.SetRPCTimeout()
	defer func() {
		types.RPCReadTimeout, types.RPCWriteTimeout = time.Second, time.Second
		rpc.SetRPCTimeout()
	}()
	closeChan := make(chan struct{}, 64)
	cl := rpc.NewClient(a, closeChan)
	answer := r.Range(0, 40) // requests answered before the peer goes silent
	go func() {
		n := 0
		for {
			f, err := readFrame(b)
			if err != nil {
				return
			}
			n++
			if n > answer {
				continue // read and never answer
			}
			out := &Frame{Magic: magic, Seq: f.Seq, Type: rpc.TypeResponse, Offset: f.Offset}
			if f.Type == rpc.TypeRead {
				out.Data = prfBytes(f.Offset, f.Size, 5)
				out.Size = f.Size
			} else {
				out.Size = int64(len(f.Data))
			}
			writeFrame(b, out)
		}
	}()
	for i := 0; i < answer; i++ {
		if _, err := cl.WriteAt(prfBytes(int64(i)*512, 512, 6), int64(i)*512); err != nil {
			c.fail("call-failed-without-fault", fmt.Sprintf("warm-up write failed: %v", err), nil)
			return
		}
	}
	var maxGap int64
	hbStop := make(chan struct{})
	go func() {
		last := time.Now()
		for {
			select {
			case <-hbStop:
				return
			case <-time.After(20 * time.Millisecond):
			}
			if g := int64(time.Since(last)); g > atomic.LoadInt64(&maxGap) {
				atomic.StoreInt64(&maxGap, g)
			}
			last = time.Now()
		}
	}()
	defer close(hbStop)
	W, R := r.Range(8, 96), r.Range(1, 4)
	type rec struct {
		op   string
		took time.Duration
		err  error
	}
	out := make(chan rec, W+R)
	t0 := time.Now()
	for g := 0; g < W; g++ {
		go func(g int) {
			t := time.Now()
			_, err := cl.WriteAt(prfBytes(int64(g)*4096, 512, 7), int64(1<<20+g*4096))
			out <- rec{"write", time.Since(t), err}
		}(g)
	}
	time.Sleep(time.Duration(r.Range(50, 400)) * time.Millisecond)
	for g := 0; g < R; g++ {
		go func(g int) {
			t := time.Now()
			_, err := cl.ReadAt(make([]byte, 512), int64(g)*512)
			out <- rec{"read", time.Since(t), err}
		}(g)
	}
	cfg := map[string]interface{}{"pending_writes": W, "reads": R, "read_deadline": "1s", "write_deadline": "20s", "answered_before_stall": answer}
	var slow, okCalls int
	var worst time.Duration
	for i := 0; i < W+R; i++ {
		select {
		case rc := <-out:
			if rc.err == nil {
				okCalls++
			}
			if rc.op == "write" && rc.took > 12*time.Second {
				slow++
			}
			if rc.took > worst {
				worst = rc.took
			}
		case <-time.After(90 * time.Second):
			c.fail("hang:mixed-deadline-stall", fmt.Sprintf("%d of %d calls still pending 90 s after the peer went silent (read deadline 1 s, write deadline 20 s)", W+R-i, W+R), cfg)
			return
		}
	}
	c.res.Count("rpc_calls", int64(W+R+answer))
	c.res.Count("mixed_deadline_cases", 1)
	c.res.Sig(fmt.Sprintf("mixed:W%d:R%d", bucket(int64(W)), R))
	cfg["slowest_call"] = worst.String()
	cfg["total"] = time.Since(t0).String()
	if g := time.Duration(atomic.LoadInt64(&maxGap)); g > 2*time.Second {
		c.res.Inconclusive = append(c.res.Inconclusive, fmt.Sprintf("mixed-deadline stall: the harness itself was not scheduled for %v", g))
		return
	}
	if okCalls > 0 {
		c.fail("call-succeeded-without-reply", fmt.Sprintf("%d calls returned success although the peer never answered them", okCalls), cfg)
		return
	}
	if slow > 0 {
		c.fail("pending-requests-left-to-their-own-deadline", fmt.Sprintf("after a read exceeded its 1 s deadline on a silent connection, %d of %d pending writes kept waiting for more than 12 s (their own deadline is 20 s) instead of failing with the connection; slowest call %v", slow, W, worst), cfg)
		return
	}
	time.Sleep(100 * time.Millisecond)
	if len(closeChan) == 0 {
		c.fail("failure-not-reported:mixed-deadline-stall", "a request exceeded its deadline but nothing was sent on the close channel", cfg)
		return
	}
	t := time.Now()
	perr := cl.Ping()
	if perr == nil || time.Since(t) > 10*time.Second {
		c.fail("call-after-failure-not-failed-at-once", fmt.Sprintf("a ping issued after the connection was declared failed returned %v after %v", perr, time.Since(t)), cfg)
		return
	}
	c.res.Count("failures_detected", 1)
}

// RunWorker runs `cases` scenarios of all four parts.
func RunWorker(prop string, seed uint64, worker, cases int, out string, thorough bool) error {
	res := vk.NewResult("rpcsim")
	types.RPCReadTimeout = time.Second
	types.RPCWriteTimeout = time.Second
	rpc.SetRPCTimeout()
	quietLogs()
	faults := []string{"", "", "stall", "close", "reset", "garbage", "late", "fin", "deadline", "mixed"}
	for i := 0; i < cases; i++ {
		cs := vk.Mix(seed, prop, fmt.Sprint(worker), fmt.Sprint(i))
		r := vk.NewRand(cs)
		c := &ctx{res: res, prop: prop, seed: cs, cas: worker*1000 + i}
		switch (i + worker) % 4 {
		case 0:
			codecScenario(c, r)
		case 1:
			matchScenario(c, r, "")
		case 2:
			f := faults[2+(worker+i/4)%8]
			if thorough && worker == 2 && i == 2 {
				f = "slow-ops-stall"
			}
			if f == "deadline" {
				deadlineScenario(c, r, (worker/8)*2+i/4)
			} else if f == "mixed" {
				mixedDeadlineStall(c, r)
			} else {
				matchScenario(c, r, f)
			}
		case 3:
			e2eScenario(c, r)
		}
		res.Cases++
		if i == 0 {
			res.Sample(map[string]interface{}{"scenario": []string{"codec", "match", "failure", "e2e"}[(i+worker)%4], "seed": cs}, 4)
		}
		res.WriteFile(out)
	}
	_ = faults
	return res.WriteFile(out)
}
