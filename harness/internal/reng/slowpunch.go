package reng

import (
	"bytes"
	"fmt"
	"os"
	"path/filepath"
	"time"

	"github.com/openebs/jiva/replica"
	"github.com/openebs/jiva/types"
	"github.com/openebs/sparse-tools/sparse"

	"verif/harness/internal/vk"
)

type foldNop struct{}

func (foldNop) UpdateFoldFileProgress(progress int, done bool, err error) {}

// RunSlowPunch is the snapshot deletion of the background cleaner (PrepareRemoveDisk, fold, RemoveDiffDisk) on a
// replica whose hole puncher is slow. It needs a harness built with jiva's own `debug` build tag as well: the tag
// turns inject.AddPunchHoleTimeout, which jiva calls before every hole it punches, from a no-op into a sleep of
// PUNCH_HOLE_TIMEOUT seconds (the maintainers' switch for exactly this kind of test; a loaded or slow disk does
// the same to fallocate). The worker sets PUNCH_HOLE_TIMEOUT=1.
//
// History: a chain base <- P <- S <- L <- head is written with reclamation off (as on a replica that is being
// rebuilt), S overriding part of what P holds; the replica is reopened or reloaded with reclamation on, so the
// preload queues "punch P where S overrides it"; at once S is deleted the cleaner's way, with 0 to 2.5 s between the
// fold and RemoveDiffDisk (the sync agent's child process and the status polling take that long). Oracle (C11's
// "a deletion never changes data", C01, C06): the live image is the same before the deletion, after it and after a
// reopen. The evidence counts the punches the preload had queued when the deletion began (a deletion that began
// with none is vacuous) and how many were still queued when the fold started (none, since the repair of F23).
func RunSlowPunch(prop string, seed uint64, worker, cases int, scratch, out string) error {
	RaiseFdLimit()
	QuietLogs()
	os.Setenv("PUNCH_HOLE_TIMEOUT", "1")
	StartHolePuncher()
	res := vk.NewResult("reng")
	jpath := out + ".journal"
	for c := 0; c < cases; c++ {
		cs := vk.Mix(seed, prop, "slowpunch", fmt.Sprint(worker), fmt.Sprint(c))
		r := vk.NewRand(cs)
		j, _ := os.Create(jpath)
		fmt.Fprintf(j, "{\"case\":%d,\"seed\":%d,\"prop\":%q,\"k\":\"slowpunch\"}\n", worker*1000+c, cs, prop)
		dir := filepath.Join(scratch, fmt.Sprintf("sp%d", c))
		os.RemoveAll(dir)
		os.MkdirAll(dir, 0700)
		cfg := map[string]interface{}{}
		viol := func(sig, what string) {
			res.Violate(vk.Violation{Property: prop, Signature: sig, What: what, Seed: cs, Case: worker*1000 + c, Witness: map[string]interface{}{"config": cfg}})
		}
		func() {
			blocks := int64(r.Range(256, 1024))
			n := int64(r.Range(16, 96))
			s := replica.NewServer("127.0.0.1:9502", dir, 512, "")
			if err := s.Create(blocks * 4096); err != nil {
				res.Inconclusive = append(res.Inconclusive, "create: "+err.Error())
				return
			}
			if err := s.Open(); err != nil {
				res.Inconclusive = append(res.Inconclusive, "open: "+err.Error())
				return
			}
			defer func() {
				s.Close()
				os.RemoveAll(dir)
			}()
			s.SetReplicaMode("RW")
			types.ShouldPunchHoles = false
			wid := uint32(1)
			write := func(b int64) {
				s.WriteAt(Payload(b*4096, 4096, wid), b*4096)
				wid++
			}
			for b := int64(0); b < n; b++ {
				write(b)
			}
			if r.Bool() {
				// an older automatic snapshot below P
				s.Snapshot("o", false, "2026-01-01T00:00:00Z")
				for b := int64(0); b < n; b += int64(r.Range(1, 3)) {
					write(b)
				}
			}
			s.Snapshot("p", false, "2026-01-01T00:00:01Z")
			over := 0
			first := int64(r.Range(0, 3))
			for b := first; b < n; b += int64(r.Range(2, 4)) {
				write(b) // S overrides P here; single blocks, so that every one is a punch request of its own
				over++
			}
			s.Snapshot("s", false, "2026-01-01T00:00:02Z")
			write(n + int64(r.Range(1, 50)))
			s.Snapshot("l", false, "2026-01-01T00:00:03Z")
			for i := 0; i < r.Range(1, 6); i++ {
				write(int64(r.Intn(int(n) + 60)))
			}
			want := make([]byte, blocks*4096)
			if _, err := s.ReadAt(want, 0); err != nil {
				res.Inconclusive = append(res.Inconclusive, "read: "+err.Error())
				return
			}
			// (Server.Reload empties the queue itself after its preload, since the repair of F20: the reload variant is
			// the one in which the deletion begins with nothing queued)
			reopen := c%3 != 2
			gap := []time.Duration{0, 1200 * time.Millisecond, 2500 * time.Millisecond}[(c+worker)%3]
			cfg["blocks_in_P"], cfg["blocks_S_overrides"], cfg["reopen_instead_of_reload"], cfg["gap_between_fold_and_remove_ms"] = n, over, reopen, gap.Milliseconds()
			// reclamation comes on: the process restarts and is told to start, or a rebuild ends with a reload
			if reopen {
				s.Close()
				types.ShouldPunchHoles = true
				if err := s.Open(); err != nil {
					res.Inconclusive = append(res.Inconclusive, "reopen: "+err.Error())
					return
				}
				s.SetReplicaMode("RW")
			} else if err := s.Reload(); err != nil {
				res.Inconclusive = append(res.Inconclusive, "reload: "+err.Error())
				return
			}
			queued := len(replica.HoleCreatorChan)
			res.Count("punches_queued_by_the_preload", int64(queued))
			if queued > 0 {
				res.Count("deletions_started_with_punches_queued", 1)
			}
			fmt.Fprintf(j, "{\"k\":\"delete s\",\"queued\":%d}\n", queued)
			ops, err := s.PrepareRemoveDisk("s")
			if err != nil {
				viol("slowpunch:prepare-refused", "PrepareRemoveDisk(s): "+err.Error())
				return
			}
			for _, op := range ops {
				switch op.Action {
				case replica.OpCoalesce:
					pending := len(replica.HoleCreatorChan)
					res.Count("punches_still_queued_when_the_fold_started", int64(pending))
					if pending > 0 {
						res.Count("folds_with_punches_pending", 1)
					}
					if err := sparse.FoldFile(filepath.Join(dir, op.Source), filepath.Join(dir, op.Target), foldNop{}); err != nil {
						viol("slowpunch:fold-failed", err.Error())
						return
					}
					time.Sleep(gap)
				case replica.OpRemove:
					if err := s.RemoveDiffDisk(op.Source); err != nil {
						viol("slowpunch:remove-failed", err.Error())
						return
					}
				}
			}
			res.Count("slow_puncher_deletions", 1)
			check := func(when string) bool {
				got := make([]byte, len(want))
				if _, err := s.ReadAt(got, 0); err != nil {
					viol("slowpunch:unreadable:"+when, err.Error())
					return false
				}
				if bytes.Equal(got, want) {
					return true
				}
				nbad, firstBad := 0, int64(-1)
				for b := int64(0); b < blocks; b++ {
					if !bytes.Equal(got[b*4096:(b+1)*4096], want[b*4096:(b+1)*4096]) {
						if firstBad < 0 {
							firstBad = b
						}
						nbad++
					}
				}
				viol("slowpunch:live-data-changed-by-deletion:"+when, fmt.Sprintf("deleting automatic snapshot s (folded into p) with a slow hole puncher changed %d blocks of the live volume (first: block %d now holds %s, before: %s); %d punches were queued by the preload",
					nbad, firstBad, Describe(got[firstBad*4096:]), Describe(want[firstBad*4096:]), queued))
				return false
			}
			if !check("at-once") {
				return
			}
			s.Close()
			if err := s.Open(); err != nil {
				viol("slowpunch:reopen-failed", err.Error())
				return
			}
			s.SetReplicaMode("RW")
			check("after-reopen")
		}()
		res.Sig(fmt.Sprint(cfg))
		res.Cases++
		j.Close()
		res.WriteFile(out)
	}
	os.Remove(jpath)
	return res.WriteFile(out)
}
