package reng

import (
	"fmt"
	"os"
	"path/filepath"
	"sort"

	jsync "github.com/openebs/jiva/sync"

	"verif/harness/internal/vk"
)

// Profile biases the history generator towards one property.
type Profile struct {
	Prop      string
	PunchPct  int
	W         map[string]int
	MinOps    int
	MaxOps    int
	DeepPct   int // chance that a quiescent check also compares snapshot images
	RawRemove bool
}

var opNames = []string{"write", "read", "usnap", "asnap", "remove", "rawremove", "markremoved", "revert", "reopen", "reload", "resize", "setcp", "lunmap", "cwrite"}

func Profiles(prop string) Profile {
	base := map[string]int{"write": 40, "read": 12, "usnap": 7, "asnap": 7, "remove": 5, "rawremove": 3, "markremoved": 2, "revert": 3, "reopen": 5, "reload": 1, "resize": 1, "setcp": 4, "lunmap": 2, "cwrite": 2}
	cp := func(over map[string]int) map[string]int {
		m := map[string]int{}
		for k, v := range base {
			m[k] = v
		}
		for k, v := range over {
			m[k] = v
		}
		return m
	}
	switch prop {
	case "C06":
		return Profile{Prop: prop, PunchPct: 80, W: cp(map[string]int{"write": 45, "usnap": 9, "asnap": 9, "rawremove": 0, "remove": 12, "setcp": 9, "reload": 2, "lunmap": 4}), MinOps: 15, MaxOps: 60, DeepPct: 100}
	case "C11":
		return Profile{Prop: prop, PunchPct: 50, W: cp(map[string]int{"write": 30, "usnap": 9, "asnap": 10, "remove": 12, "markremoved": 6, "rawremove": 0, "setcp": 8, "revert": 1}), MinOps: 20, MaxOps: 60, DeepPct: 100}
	case "C16":
		return Profile{Prop: prop, PunchPct: 40, W: cp(map[string]int{"resize": 10, "rawremove": 0}), MinOps: 15, MaxOps: 50, DeepPct: 100}
	case "C10":
		return Profile{Prop: prop, PunchPct: 30, W: cp(map[string]int{"write": 50, "reopen": 8}), MinOps: 15, MaxOps: 50, DeepPct: 0}
	case "C12":
		return Profile{Prop: prop, PunchPct: 30, W: cp(map[string]int{"write": 20, "usnap": 10, "asnap": 10, "remove": 8, "rawremove": 9, "markremoved": 4, "revert": 6, "reopen": 8, "resize": 3}), MinOps: 15, MaxOps: 45, DeepPct: 20}
	default: // C01
		return Profile{Prop: prop, PunchPct: 50, W: cp(nil), MinOps: 15, MaxOps: 60, DeepPct: 25, RawRemove: true}
	}
}

// owner computes, from the model, which layer owns each 4 KiB block:
// -1 unwritten, len(chain) = head, else chain index.
func (e *Engine) owners() []int {
	nb := int(e.M.Size / Block)
	own := make([]int, nb)
	for b := 0; b < nb; b++ {
		own[b] = -1
		// topmost layer whose image differs from the layer below
		cur := e.M.Live
		for li := len(e.M.Chain); li >= 0; li-- {
			var below []uint32
			if li > 0 {
				below = e.M.Chain[li-1].Img
			}
			diff := false
			for s := b * 8; s < b*8+8; s++ {
				var lo uint32
				if below != nil && s < len(below) {
					lo = below[s]
				}
				if cur[s] != lo {
					diff = true
					break
				}
			}
			if diff {
				own[b] = li
				break
			}
			if li > 0 {
				cur = below
			}
		}
	}
	return own
}

// GenRange draws a write/read range with the alignment classes that matter.
func (e *Engine) GenRange() (int64, int64, string) {
	nb := int(e.M.Size / Block)
	r := e.R
	cls := r.Pick([]int{10, 12, 18, 12, 14, 8, 26, 12})
	switch cls {
	case 7: // overwrite blocks owned by a user-created snapshot (the protected boundary of reclamation)
		own := e.owners()
		var cands []int
		newest := -1
		for i, c := range e.M.Chain {
			if c.User {
				newest = i
			}
		}
		for b := 0; b < nb; b++ {
			if own[b] >= 0 && own[b] < len(e.M.Chain) && (own[b] == newest || e.M.Chain[own[b]].User && r.Chance(30)) {
				cands = append(cands, b)
			}
		}
		if len(cands) == 0 {
			return int64(r.Intn(nb)) * Block, Block, "block"
		}
		b := cands[r.Intn(len(cands))]
		l := r.Range(1, 3)
		if b+l > nb {
			l = nb - b
		}
		return int64(b) * Block, int64(l) * Block, "userblock"
	case 0: // single sector inside a block
		b := r.Intn(nb)
		return int64(b)*Block + int64(r.Intn(8))*Sector, Sector, "sector"
	case 1: // a few sectors inside one block
		b := r.Intn(nb)
		s := r.Intn(7)
		l := r.Range(1, 8-s)
		return int64(b)*Block + int64(s)*Sector, int64(l) * Sector, "inblock"
	case 2: // span starting and/or ending mid-block
		b := r.Intn(nb)
		s := r.Intn(8)
		l := r.Range(8-s+1, 8*4)
		off := int64(b)*Block + int64(s)*Sector
		ln := int64(l) * Sector
		if off+ln > e.M.Size {
			ln = e.M.Size - off
		}
		return off, ln, "span"
	case 3: // exactly one block
		return int64(r.Intn(nb)) * Block, Block, "block"
	case 4: // many blocks
		b := r.Intn(nb)
		l := r.Range(2, 16)
		if b+l > nb {
			l = nb - b
		}
		return int64(b) * Block, int64(l) * Block, "blocks"
	case 5: // first / last block
		if r.Bool() {
			return 0, int64(r.Range(1, 12)) * Sector, "first"
		}
		l := int64(r.Range(1, 12)) * Sector
		return e.M.Size - l, l, "last"
	default: // straddle blocks owned by different snapshot files
		own := e.owners()
		head := len(e.M.Chain)
		var cands []int
		for b := 0; b+1 < nb; b++ {
			if own[b] >= 0 && own[b+1] >= 0 && own[b] != own[b+1] && own[b] != head && own[b+1] != head {
				cands = append(cands, b)
			}
		}
		if len(cands) == 0 {
			b := r.Intn(nb)
			l := r.Range(1, 4)
			if b+l > nb {
				l = nb - b
			}
			return int64(b) * Block, int64(l) * Block, "blocks"
		}
		b := cands[r.Intn(len(cands))]
		lo := b - r.Intn(3)
		if lo < 0 {
			lo = 0
		}
		hi := b + 2 + r.Intn(3)
		if hi > nb {
			hi = nb
		}
		e.nStraddle++
		if r.Chance(25) { // unaligned edges around the straddle
			off := int64(lo)*Block + int64(r.Intn(8))*Sector
			end := int64(hi)*Block - int64(r.Intn(8))*Sector
			if end-off >= Sector {
				return off, end - off, "straddle-unaligned"
			}
		}
		return int64(lo) * Block, int64(hi-lo) * Block, "straddle"
	}
}

// allowedCandidate is the deletion-candidate predicate taken from the
// property statement, evaluated on the model chain.
func (e *Engine) allowedCandidate(name, checkpoint string) (bool, string) {
	i := e.M.Find(name)
	if i < 0 {
		return false, "not a snapshot of the chain (head or unknown)"
	}
	if i == 0 {
		return false, "base snapshot"
	}
	if i == len(e.M.Chain)-1 {
		return false, "latest snapshot"
	}
	ci := e.M.Find(checkpoint)
	if ci < 0 {
		return false, "no checkpoint in chain"
	}
	if i >= ci {
		return false, "checkpoint or newer"
	}
	x := e.M.Chain[i]
	if x.User && !x.Removed {
		return false, "user-created and not marked removed"
	}
	p := e.M.Chain[i-1]
	if p.User && !p.Removed {
		return false, "merge target is a retained user-created snapshot"
	}
	return true, ""
}

// Candidates asks the real cleaner filter and checks every returned name.
func (e *Engine) Candidates(checkpoint string) []string {
	r := e.Srv.Replica()
	if r == nil {
		return nil
	}
	list, err := jsync.GetDeleteCandidateChain(r, checkpoint)
	e.Res.Count("candidate_queries", 1)
	if err != nil {
		e.Res.Count("candidate_query_errors", 1)
		return nil
	}
	if len(list) > 0 {
		e.Res.Count("candidate_queries_nonempty", 1)
	}
	seen := map[string]bool{}
	for _, n := range list {
		if ok, why := e.allowedCandidate(n, checkpoint); !ok {
			e.rec(Op{K: "candidates", Name: checkpoint, Arg: fmt.Sprint(list)})
			if e.Prop == "C11" || e.M.Find(n) <= 0 || e.M.Find(n) >= len(e.M.Chain)-1 {
				e.Fail("C11", "candidates:forbidden:"+why, fmt.Sprintf("cleaner candidate list %v (checkpoint %s) contains %s: %s; chain %v", list, checkpoint, n, why, e.M.ChainNames()))
				return nil
			}
			// other checks let the cleaner have its way and judge by what happens to data and snapshots
			e.Res.Count("other_property_observation:C11:candidates:forbidden:"+why, 1)
			return []string{n}
		}
		if seen[n] {
			e.Fail("C11", "candidates:duplicate", fmt.Sprintf("candidate list repeats %s: %v", n, list))
			return nil
		}
		seen[n] = true
	}
	// completeness is not required by the property; count agreement for the evidence
	exp := 0
	for _, c := range e.M.Chain {
		if ok, _ := e.allowedCandidate(c.Name, checkpoint); ok {
			exp++
		}
	}
	if exp == len(list) {
		e.Res.Count("candidate_sets_equal_to_predicate", 1)
	}
	sort.Strings(list)
	return list
}

// Step performs one generated operation. It returns false if the chosen
// operation was not applicable in the current state.
func (e *Engine) Step(p Profile) bool {
	w := make([]int, len(opNames))
	for i, n := range opNames {
		w[i] = p.W[n]
	}
	k := opNames[e.R.Pick(w)]
	n := len(e.M.Chain)
	switch k {
	case "write":
		o, l, _ := e.GenRange()
		e.Write(o, l)
	case "read":
		o, l, _ := e.GenRange()
		e.Read(o, l)
	case "usnap", "asnap":
		if n >= 10 {
			return false
		}
		e.Snapshot(k == "usnap")
		// the controller records the newest common snapshot as checkpoint
		if !e.Dead && (p.Prop == "C06" || p.Prop == "C11") && e.R.Chance(50) {
			e.SetCheckpoint(e.M.Chain[len(e.M.Chain)-1].Name)
		}
	case "setcp":
		if n == 0 {
			return false
		}
		// the controller records the latest snapshot; older ones stay valid too
		i := n - 1
		if e.R.Chance(30) {
			i = e.R.Intn(n)
		}
		e.SetCheckpoint(e.M.Chain[i].Name)
	case "remove":
		if e.M.Checkpoint == "" {
			return false
		}
		c := e.Candidates(e.M.Checkpoint)
		if e.Dead || len(c) == 0 {
			return false
		}
		e.Remove(e.M.Find(c[e.R.Intn(len(c))]), false)
	case "rawremove":
		if !p.RawRemove && p.Prop != "C12" || n < 3 {
			return false
		}
		e.Remove(e.R.Range(1, n-2), true)
	case "markremoved":
		var c []int
		for i := 1; i <= n-2; i++ {
			if e.M.Chain[i].User && !e.M.Chain[i].Removed {
				c = append(c, i)
			}
		}
		if len(c) == 0 {
			return false
		}
		e.MarkRemoved(c[e.R.Intn(len(c))])
	case "revert":
		var c []int
		for i, m := range e.M.Chain {
			if m.Exact && (m.User && !m.Removed || !e.M.PunchEver) {
				c = append(c, i)
			}
		}
		if len(c) == 0 {
			return false
		}
		i := c[e.R.Intn(len(c))]
		if e.M.Checkpoint != "" && e.M.Find(e.M.Checkpoint) > i {
			e.M.Checkpoint = "" // harness-side bookkeeping: the checkpoint left the chain
			e.Srv.SetCheckpoint("")
		}
		e.Revert(i)
	case "reopen":
		e.Reopen(e.R.Bool())
	case "reload":
		e.Reload()
	case "lunmap":
		e.LunMap()
	case "cwrite":
		e.ConcurrentSubBlockWrites(e.R.Range(2, 8), e.R.Range(5, 40))
	case "resize":
		if e.M.Size/Block > 600 {
			return false
		}
		add := int64(e.R.Range(1, 16)) * Block
		how := "bytes"
		if e.R.Bool() {
			how = "human"
		}
		e.Resize(e.M.Size+add, how)
	}
	return true
}

// RunStd runs one standard history.
func RunStd(e *Engine, p Profile) {
	r := e.R
	blocks := r.Range(16, 128)
	if r.Chance(12) {
		blocks = r.Range(129, 512)
	}
	punch := r.Chance(p.PunchPct)
	nops := r.Range(p.MinOps, p.MaxOps)
	e.Cfg = map[string]interface{}{"blocks": blocks, "punch": punch, "ops": nops, "profile": p.Prop}
	if err := e.Create(int64(blocks)*Block, punch); err != nil {
		e.Res.Inconclusive = append(e.Res.Inconclusive, fmt.Sprintf("case %d: create failed: %v", e.Case, err))
		return
	}
	defer e.Destroy()
	since := 0
	for i := 0; i < nops && !e.Dead; i++ {
		before := len(e.Log)
		if !e.Step(p) {
			continue
		}
		since++
		last := ""
		if len(e.Log) > before {
			last = e.Log[before].K
		}
		if last == "lunmap" {
			e.Check(true)
			since = 0
			continue
		}
		if p.Prop == "C11" && (last == "remove" || last == "markremoved") {
			e.Retag = "C11"
			e.Check(true)
			e.Retag = ""
			since = 0
			continue
		}
		mut := last != "write" && last != "read" && last != "" && last != "setcheckpoint" && last != "markremoved"
		if mut || since >= 8 {
			e.Check(r.Chance(p.DeepPct))
			since = 0
		}
	}
	e.Check(true)
}

// RunWorker runs `cases` histories for one property and writes the result.
func RunWorker(prop string, seed uint64, worker, cases int, scratch, out string) error {
	RaiseFdLimit()
	QuietLogs()
	StartHolePuncher()
	res := vk.NewResult("reng")
	p := Profiles(prop)
	jpath := out + ".journal"
	for c := 0; c < cases; c++ {
		j, _ := os.Create(jpath)
		cs := vk.Mix(seed, prop, fmt.Sprint(worker), fmt.Sprint(c))
		e := &Engine{Prop: prop, Dir: filepath.Join(scratch, fmt.Sprintf("r%d", c)), R: vk.NewRand(cs), Res: res, Seed: cs, Case: worker*1000 + c, Journal: j}
		fmt.Fprintf(j, "{\"case\":%d,\"seed\":%d,\"prop\":%q}\n", e.Case, cs, prop)
		switch {
		case prop == "C01" && worker == 2 && (c == 0 || c%40 == 20):
			RunReloadBacklog(e)
			res.Cases++
			sig, _ := e.CaseSig()
			res.Sig(sig)
			res.WriteFile(out)
			j.Close()
			continue
		case prop == "C01" && worker <= 1 && (c == 0 || c%40 == 20):
			RunFragmented(e, worker == 1)
			res.Cases++
			sig, _ := e.CaseSig()
			res.Sig(sig)
			res.WriteFile(out)
			j.Close()
			continue
		case (prop == "C11" && worker < 2 || prop == "C06" && worker == 0) && c == 0:
			// two workers spend their first case on the real cleaner loop (60 s ticker)
			rounds := 1
			if cases > 50 {
				rounds = 2
			}
			RunCleanerLoop(e, rounds, 60+worker, (os.Getpid()*11)%250)
			res.Cases++
			res.WriteFile(out)
			j.Close()
			continue
		}
		switch prop {
		case "C12":
			RunChainCase(e, p)
		case "C17":
			RunGateCase(e)
		case "C16":
			RunResizeCase(e, p)
		case "C10":
			RunRevCase(e, p)
		default:
			RunStd(e, p)
		}
		j.Close()
		res.Cases++
		sig, nt := e.CaseSig()
		if nt {
			res.Sig(sig)
		}
		res.Sample(map[string]interface{}{"config": e.Cfg, "ops": headOps(e.Log, 40)}, 2)
		res.WriteFile(out)
	}
	os.Remove(jpath)
	return res.WriteFile(out)
}

func headOps(l []Op, n int) []Op {
	if len(l) > n {
		return l[:n]
	}
	return l
}

// BuildPreState creates a replica directory by a short generated history
// (reclamation off, so every snapshot image is exact), closes it cleanly and
// returns the model describing it.
func BuildPreState(dir string, r *vk.Rand, nops int, res *vk.Result) (*Model, bool) {
	e := &Engine{Prop: "C08", Dir: dir, R: r, Res: res}
	blocks := r.Range(16, 64)
	if err := e.Create(int64(blocks)*Block, false); err != nil {
		return nil, false
	}
	p := Profiles("C01")
	p.W["reload"], p.W["lunmap"], p.W["reopen"], p.W["resize"], p.W["rawremove"] = 0, 0, 1, 1, 0
	p.W["usnap"], p.W["asnap"], p.W["setcp"], p.W["remove"] = 10, 10, 6, 4
	for i := 0; i < nops && !e.Dead; i++ {
		e.Step(p)
	}
	e.Check(false)
	if e.Dead {
		e.Destroy()
		return nil, false
	}
	if err := e.Srv.Close(); err != nil {
		e.Destroy()
		return nil, false
	}
	return e.M, true
}
