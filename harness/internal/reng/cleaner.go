package reng

import (
	"bytes"
	"encoding/json"
	"fmt"
	"github.com/openebs/jiva/replica"
	"io"
	"net"
	"net/http"
	"os"
	"strings"
	"sync/atomic"
	"time"

	crest "github.com/openebs/jiva/controller/rest"
	rclient "github.com/openebs/jiva/replica/client"
	jsync "github.com/openebs/jiva/sync"
	"github.com/openebs/jiva/sync/agent"
	gclient "github.com/rancher/go-rancher/client"
)

// RunCleanerLoop runs the real background cleaner (sync.InternalSnapshotCleaner
// with its 60 s ticker) on a replica whose chain has deletion candidates: the
// checkpoint is served by a stub of the controller's GET /v1/checkpoint, the
// coalesce step goes through the real sync-agent router (which re-executes this
// binary as sfold); in the first round the fold is made to fail (the agent is
// asked to fold a file that does not exist). After each round the live image
// and every retained user snapshot must be unchanged.
func RunCleanerLoop(e *Engine, rounds int, ipA, ipB int) {
	r := e.R
	blocks := r.Range(64, 96)
	e.Cfg = map[string]interface{}{"blocks": blocks, "profile": "C11-cleaner-loop", "rounds": rounds}
	if err := e.Create(int64(blocks)*Block, r.Bool()); err != nil {
		e.Res.Inconclusive = append(e.Res.Inconclusive, "cleaner loop: create: "+err.Error())
		return
	}
	defer e.Destroy()
	// chain: base, then automatic snapshots each holding blocks nobody overwrites later, a user snapshot, more automatic ones
	nb := blocks
	for i := 0; i < 7 && !e.Dead; i++ {
		// every snapshot holds blocks that no later write touches: deleting it without merging loses live data
		for k := 0; k < 3; k++ {
			e.Write(int64(i*8+k)*Block+int64(r.Intn(4))*Sector, Block-int64(r.Intn(4))*Sector)
		}
		// plus some traffic in a shared region
		b := 56 + r.Intn(nb-57)
		e.Write(int64(b)*Block, int64(r.Range(1, 8))*Sector)
		e.Snapshot(i == 3)
	}
	if e.Dead {
		return
	}
	latest := e.M.Chain[len(e.M.Chain)-1].Name
	e.SetCheckpoint(latest)
	e.Check(true)
	if e.Dead {
		return
	}
	ip := fmt.Sprintf("127.%d.%d.%d", ipA, ipB, 2+r.Intn(200))
	ctl, err1 := net.Listen("tcp", ip+":9501")
	ag, err2 := net.Listen("tcp", ip+":9504")
	if err1 != nil || err2 != nil {
		e.Res.Inconclusive = append(e.Res.Inconclusive, fmt.Sprintf("cleaner loop: listen: %v %v", err1, err2))
		return
	}
	defer ctl.Close()
	defer ag.Close()
	mux := http.NewServeMux()
	mux.HandleFunc("/v1/checkpoint", func(w http.ResponseWriter, rq *http.Request) {
		json.NewEncoder(w).Encode(crest.Checkpoint{Resource: gclient.Resource{Type: "checkpoint"}, Snapshot: latest})
	})
	go http.Serve(ctl, mux)
	// the real sync agent; the first fold request is redirected to a missing file so that sfold fails
	cwd, _ := os.Getwd()
	os.Chdir(e.Dir)
	defer os.Chdir(cwd)
	var failNext int32 = 1
	var folds, failed int32
	router := agent.NewRouter(agent.NewServer(20000, 20010))
	go http.Serve(ag, http.HandlerFunc(func(w http.ResponseWriter, rq *http.Request) {
		if rq.Method == "POST" && strings.HasSuffix(strings.TrimRight(rq.URL.Path, "/"), "/processes") {
			b, _ := io.ReadAll(rq.Body)
			if bytes.Contains(b, []byte(`"fold"`)) {
				atomic.AddInt32(&folds, 1)
				if atomic.CompareAndSwapInt32(&failNext, 1, 0) {
					atomic.AddInt32(&failed, 1)
					b = bytes.Replace(b, []byte(`"srcFile":"`), []byte(`"srcFile":"missing-`), 1)
				}
			}
			rq.Body = io.NopCloser(bytes.NewReader(b))
			rq.ContentLength = int64(len(b))
		}
		router.ServeHTTP(w, rq)
	}))
	saveRet := jsync.SnapshotRetentionCount
	jsync.SnapshotRetentionCount = 1
	defer func() { jsync.SnapshotRetentionCount = saveRet }()
	repClient, err := rclient.NewReplicaClient("tcp://" + ip + ":9502")
	if err != nil {
		e.Res.Inconclusive = append(e.Res.Inconclusive, "cleaner loop: client: "+err.Error())
		return
	}
	task := jsync.NewTask("http://" + ip + ":9501")
	e.rec(Op{K: "cleaner-loop-start", Name: latest})
	e.Retag = e.Prop // C11 or C06: what a deletion does to live data and retained snapshots
	go task.InternalSnapshotCleaner(e.Srv, repClient)
	for round := 0; round < rounds && !e.Dead; round++ {
		before := len(e.M.Chain)
		// one tick of the cleaner (60 s constant) plus the time its fold/remove needs
		time.Sleep(jsync.SnapshotDeletionInterval + 4*time.Second)
		r2 := e.Srv.Replica()
		if r2 == nil {
			return
		}
		chain, _ := r2.Chain()
		// bring the model in line with what the cleaner did (it may have removed one candidate or none)
		removed := ""
		have := map[string]bool{}
		for _, n := range chain {
			have[n] = true
		}
		for i, c := range e.M.Chain {
			if !have[c.Name] {
				removed = c.Name
				if ok, why := e.allowedCandidate(c.Name, latest); !ok {
					e.Fail("C11", "cleaner-loop:removed-forbidden:"+why, fmt.Sprintf("the background cleaner removed %s: %s", c.Name, why))
					return
				}
				e.M.Fold(i, false)
				break
			}
		}
		// a snapshot the cleaner prepared is marked removed even if the round then failed
		disks := r2.ListDisks()
		for _, c := range e.M.Chain {
			if d, ok := disks[c.Name]; ok && d.Removed {
				c.Removed = true
			}
		}
		e.rec(Op{K: "cleaner-round", Arg: fmt.Sprintf("round %d: folds requested %d, made to fail %d, removed %q", round, atomic.LoadInt32(&folds), atomic.LoadInt32(&failed), removed)})
		e.Res.Count("cleaner_rounds", 1)
		if removed != "" {
			e.Res.Count("cleaner_removals", 1)
		}
		if round == 0 && atomic.LoadInt32(&failed) > 0 {
			e.Res.Count("cleaner_rounds_with_failed_fold", 1)
		}
		_ = before
		e.Check(true) // live image, chain and every retained user snapshot
	}
	e.nMut++
	e.nReopen++
	e.nUnaligned++
}

// RunFragmented builds a layer with more than 1024 separate extents (the batch size of the extent scan), snapshots
// it, overwrites part of it and reopens with preload and reclamation on: every block must still read back.
func RunFragmented(e *Engine, above bool) {
	blocks := 2400 + e.R.Intn(800)
	e.Cfg = map[string]interface{}{"blocks": blocks, "punch": true, "profile": "C01-fragmented-layer"}
	// (reclamation would remove the older copies this variant is about: it runs without)
	e.Cfg["punch"] = !above
	if err := e.Create(int64(blocks)*Block, !above); err != nil {
		e.Res.Inconclusive = append(e.Res.Inconclusive, "fragmented: create: "+err.Error())
		return
	}
	defer e.Destroy()
	if above {
		// the fragmented layer sits on top of an older layer that holds the same blocks: an extent of the newer file
		// that the preload misses leaves the block mapped to the older file
		e.Cfg["profile"] = "C01-fragmented-layer-above-data"
		for off := int64(0); off < int64(blocks)*Block && !e.Dead; off += 64 * Block {
			l := int64(64) * Block
			if off+l > int64(blocks)*Block {
				l = int64(blocks)*Block - off
			}
			e.Write(off, l)
		}
		e.Snapshot(e.R.Bool())
	}
	// every other block: one extent per block
	for b := 0; b < blocks && !e.Dead; b += 2 {
		wid := e.M.NextWID
		e.M.NextWID++
		if _, err := e.Srv.WriteAt(Payload(int64(b)*Block, Block, wid), int64(b)*Block); err != nil {
			e.Fail("C01", "write:error-in-RW", err.Error())
			return
		}
		e.M.Write(int64(b)*Block, Block, wid)
	}
	e.Res.Count("writes", int64(blocks/2))
	e.rec(Op{K: "fragmented-fill", Len: int64(blocks / 2)})
	e.Snapshot(false)
	for i := 0; i < 40 && !e.Dead; i++ {
		o, l, _ := e.GenRange()
		e.Write(o, l)
	}
	e.Snapshot(e.R.Bool())
	for i := 0; i < 20 && !e.Dead; i++ {
		o, l, _ := e.GenRange()
		e.Write(o, l)
	}
	e.Check(false)
	e.Reopen(true)
	e.Check(true)
	e.Reload()
	e.Check(false)
	e.Reopen(false)
	e.Check(false)
}

// RunReloadBacklog: a reload arrives while the hole puncher still has a backlog
// for the files the reload is about to close. Even blocks live in one automatic
// snapshot, odd blocks in the next, and one write over the whole volume makes
// every block a run of its own: thousands of punches are queued by a single
// request. The reload that follows at once must neither lose data nor take the
// process down.
func RunReloadBacklog(e *Engine) {
	blocks := 4096 + e.R.Intn(2048)
	e.Cfg = map[string]interface{}{"blocks": blocks, "punch": true, "profile": "C01-reload-with-punch-backlog"}
	if err := e.Create(int64(blocks)*Block, true); err != nil {
		e.Res.Inconclusive = append(e.Res.Inconclusive, "reload-backlog: create: "+err.Error())
		return
	}
	defer e.Destroy()
	fill := func(first int) {
		for b := first; b < blocks && !e.Dead; b += 2 {
			wid := e.M.NextWID
			e.M.NextWID++
			if _, err := e.Srv.WriteAt(Payload(int64(b)*Block, Block, wid), int64(b)*Block); err != nil {
				e.Fail("C01", "write:error-in-RW", err.Error())
				return
			}
			e.M.Write(int64(b)*Block, Block, wid)
		}
		e.Res.Count("writes", int64(blocks/2))
		e.rec(Op{K: "fill-every-other-block", Off: int64(first), Len: int64(blocks / 2)})
	}
	fill(0)
	e.Snapshot(false)
	fill(1)
	e.Snapshot(false)
	e.Write(0, int64(blocks)*Block)
	e.Res.Count("punches_pending_at_reload", int64(len(replica.HoleCreatorChan)))
	e.Reload()
	e.Check(true)
	if !e.Dead {
		o, l, _ := e.GenRange()
		e.Write(o, l)
		e.Reopen(true)
		e.Check(false)
	}
}
