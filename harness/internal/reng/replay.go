package reng

import (
	"encoding/json"
	"fmt"
	"os"
	"strconv"
	"strings"

	"verif/harness/internal/vk"
)

// Replay re-executes the operation list of an E1 witness on a fresh replica
// directory with all oracles on and reports whether a violation shows again.
// Requests of the hostile kinds (badreq, gate probes) are re-issued through the
// same entry points where the witness carries enough detail.
func Replay(path, scratch string) int {
	QuietLogs()
	RaiseFdLimit()
	StartHolePuncher()
	b, err := os.ReadFile(path)
	if err != nil {
		fmt.Println("replay:", err)
		return 2
	}
	var v struct {
		Property  string `json:"property"`
		Signature string `json:"signature"`
		Witness   struct {
			Config map[string]interface{} `json:"config"`
			Ops    []Op                   `json:"ops"`
		} `json:"witness"`
	}
	if err := json.Unmarshal(b, &v); err != nil || len(v.Witness.Ops) == 0 {
		fmt.Println("replay: this witness has no replica-engine operation list (only E1 witnesses can be replayed)")
		return 2
	}
	res := vk.NewResult("replay")
	e := &Engine{Prop: v.Property, Dir: scratch + "/replay", R: vk.NewRand(1), Res: res}
	blocks := 64
	if f, ok := v.Witness.Config["blocks"].(float64); ok {
		blocks = int(f)
	}
	punch, _ := v.Witness.Config["punch"].(bool)
	if err := e.Create(int64(blocks)*Block, punch); err != nil {
		fmt.Println("replay: create:", err)
		return 2
	}
	defer e.Destroy()
	for _, o := range v.Witness.Ops {
		if e.Dead {
			break
		}
		switch o.K {
		case "write":
			e.M.NextWID = o.WID
			e.Write(o.Off, o.Len)
		case "read":
			e.Read(o.Off, o.Len)
		case "snapshot":
			if n, err := strconv.Atoi(strings.TrimPrefix(o.Name, "s")); err == nil && n >= e.M.NextSnap {
				e.M.NextSnap = n
			} else {
				e.ForceName = o.Name // a name used again after its first holder was deleted
			}
			e.Snapshot(o.User)
		case "remove", "rawremove":
			if i := e.M.Find(o.Name); i > 0 {
				e.Remove(i, o.K == "rawremove")
			}
		case "markremoved":
			if i := e.M.Find(o.Name); i > 0 {
				e.MarkRemoved(i)
			}
		case "revert":
			if i := e.M.Find(o.Name); i >= 0 {
				e.Revert(i)
			}
		case "reopen":
			e.Reopen(o.Preload)
		case "reload":
			e.Reload()
		case "lunmap":
			e.LunMap()
		case "resize":
			e.Resize(o.Size, "bytes")
		case "setcheckpoint":
			e.SetCheckpoint(o.Name)
		case "setmode":
			e.SetMode(o.Arg)
		case "setrev":
			e.SetRev(o.Size)
		case "check":
			e.Check(true)
		case "badreq":
			name := o.Name
			switch o.Arg {
			case "removedisk":
				e.BadReq(o.Arg, name, o.Note, func() error { return e.Srv.RemoveDiffDisk(name) })
			case "prepareremovedisk":
				e.BadReq(o.Arg, name, o.Note, func() error { _, err := e.Srv.PrepareRemoveDisk(name); return err })
			case "revert":
				e.BadReq(o.Arg, name, o.Note, func() error { return e.Srv.Revert(name, now()) })
			case "snapshot":
				e.BadReq(o.Arg, name, o.Note, func() error { return e.Srv.Snapshot(name, true, now()) })
			case "resize":
				e.BadReq(o.Arg, name, o.Note, func() error { return e.Srv.Resize(name) })
			}
		}
	}
	e.Check(true)
	for _, vi := range res.Violations {
		fmt.Printf("REPRODUCED property=%s signature=%s\n  %s\n", vi.Property, vi.Signature, vi.What)
	}
	if len(res.Violations) > 0 {
		return 1
	}
	fmt.Println("not reproduced on this tree (", len(v.Witness.Ops), "operations replayed )")
	return 0
}
