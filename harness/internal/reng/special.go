package reng

import (
	"fmt"
	"os"
	"path/filepath"
	"strconv"
	"strings"
	"sync"
	"sync/atomic"

	"github.com/openebs/jiva/types"

	"verif/harness/internal/fsx"
)

// ---------------------------------------------------------------- C10: revision counter

func (e *Engine) SetMode(mode string) {
	if e.Dead {
		return
	}
	op := e.rec(Op{K: "setmode", Arg: mode})
	if err := e.Srv.SetReplicaMode(mode); err != nil {
		op.Err = err.Error()
		e.Fail("C17", "setmode:refused", err.Error())
		return
	}
	e.M.Mode = mode
}

func (e *Engine) SetRev(v int64) {
	if e.Dead {
		return
	}
	op := e.rec(Op{K: "setrev", Size: v})
	err := e.Srv.SetRevisionCounter(v)
	e.Res.Count("setrev_"+e.M.Mode, 1)
	if e.M.Mode == "RW" {
		if err != nil {
			op.Err = err.Error()
			e.Fail("C10", "setrev:refused-in-RW", err.Error())
			return
		}
		e.M.Rev = v
	} else if err == nil {
		e.Fail("C17", "setrev:accepted-in-"+e.M.Mode, fmt.Sprintf("SetRevisionCounter(%d) accepted in mode %s", v, e.M.Mode))
		return
	}
	e.checkRev()
}

// ConcurrentWrites issues n*m block writes from n goroutines on disjoint
// block sets and checks the counter arithmetic.
func (e *Engine) ConcurrentWrites(n, m int) {
	if e.Dead {
		return
	}
	nb := int(e.M.Size / Block)
	if nb < n {
		n = nb
	}
	e.rec(Op{K: "concurrent", Off: int64(n), Len: int64(m)})
	before := e.Srv.Replica().GetRevisionCounter()
	var issued, completed int64
	var wg sync.WaitGroup
	errs := make(chan error, n*m)
	type wr struct {
		off int64
		wid uint32
	}
	plan := make([][]wr, n)
	for g := 0; g < n; g++ {
		for i := 0; i < m; i++ {
			// goroutine g owns blocks b with b%n==g
			k := e.R.Intn((nb - g + n - 1) / n)
			b := g + k*n
			plan[g] = append(plan[g], wr{int64(b) * Block, e.M.NextWID})
			e.M.NextWID++
		}
	}
	stop := make(chan struct{})
	sdone := make(chan struct{})
	var sampleBad atomic.Value
	var nsamples int64
	go func() { // concurrent sampler (touches nothing but its own counters: the monitor must not become the race)
		defer close(sdone)
		for {
			select {
			case <-stop:
				return
			default:
			}
			c := atomic.LoadInt64(&completed)
			v := e.Srv.Replica().GetRevisionCounter()
			i := atomic.LoadInt64(&issued)
			if v < before+c || v > before+i {
				sampleBad.Store(fmt.Sprintf("sample %d outside [%d,%d]", v, before+c, before+i))
			}
			atomic.AddInt64(&nsamples, 1)
		}
	}()
	for g := 0; g < n; g++ {
		wg.Add(1)
		go func(g int) {
			defer wg.Done()
			for _, w := range plan[g] {
				buf := Payload(w.off, Block, w.wid)
				atomic.AddInt64(&issued, 1)
				if _, err := e.Srv.WriteAt(buf, w.off); err != nil {
					errs <- err
					return
				}
				atomic.AddInt64(&completed, 1)
			}
		}(g)
	}
	wg.Wait()
	close(stop)
	<-sdone
	e.Res.Count("concurrent_samples", atomic.LoadInt64(&nsamples))
	for g := 0; g < n; g++ {
		for _, w := range plan[g] {
			e.M.Write(w.off, Block, w.wid)
		}
	}
	e.Res.Count("concurrent_runs", 1)
	e.Res.Count("writes", int64(n*m))
	select {
	case err := <-errs:
		e.Fail("C01", "write:error-concurrent", err.Error())
		return
	default:
	}
	if s := sampleBad.Load(); s != nil && e.M.Mode == "RW" {
		e.Fail("C10", "rev:concurrent-sample-out-of-bounds", s.(string))
		return
	}
	e.checkRev()
}

// ConcurrentSubBlockWrites: n goroutines own contiguous sector ranges whose
// boundaries fall inside 4 KiB blocks, so neighbours share blocks but never a
// sector; each issues m writes of random sub-ranges of its own range through
// Server.WriteAt (what the rpc server calls). Every sector must end up holding
// the last write its owner made to it: a read-modify-write of one writer must
// not put back a neighbour's older bytes.
func (e *Engine) ConcurrentSubBlockWrites(n, m int) {
	if e.Dead {
		return
	}
	total := e.M.Size / Sector
	span := int64(n) * int64(e.R.Range(3, 13)) // sectors in the window
	if span > total {
		span = total
	}
	if span < int64(n) {
		return
	}
	start := int64(0)
	if total > span {
		start = int64(e.R.Intn(int(total - span + 1)))
	}
	// cut points: n-1 distinct positions inside the window
	cuts := []int64{start}
	for g := 1; g < n; g++ {
		cuts = append(cuts, start+span*int64(g)/int64(n))
	}
	cuts = append(cuts, start+span)
	e.rec(Op{K: "cwrite", Off: start * Sector, Len: span * Sector, Note: fmt.Sprintf("%d writers x %d", n, m)})
	type wr struct {
		off, l int64
		wid    uint32
	}
	plan := make([][]wr, n)
	for g := 0; g < n; g++ {
		lo, hi := cuts[g], cuts[g+1]
		for i := 0; i < m; i++ {
			o := lo + int64(e.R.Intn(int(hi-lo)))
			l := int64(e.R.Range(1, int(hi-o)))
			plan[g] = append(plan[g], wr{o * Sector, l * Sector, e.M.NextWID})
			e.M.NextWID++
		}
	}
	var wg sync.WaitGroup
	errs := make(chan error, n)
	for g := 0; g < n; g++ {
		wg.Add(1)
		go func(g int) {
			defer wg.Done()
			for _, w := range plan[g] {
				if _, err := e.Srv.WriteAt(Payload(w.off, w.l, w.wid), w.off); err != nil {
					errs <- err
					return
				}
			}
		}(g)
	}
	wg.Wait()
	for g := 0; g < n; g++ {
		for _, w := range plan[g] {
			e.M.Write(w.off, w.l, w.wid)
		}
	}
	e.Res.Count("concurrent_subblock_runs", 1)
	e.Res.Count("writes", int64(n*m))
	select {
	case err := <-errs:
		e.Fail("C01", "write:error-concurrent", err.Error())
		return
	default:
	}
	// the blocks the window touches, read back as one range
	lo := start * Sector / Block * Block
	hi := ((start+span)*Sector + Block - 1) / Block * Block
	if hi > e.M.Size {
		hi = e.M.Size
	}
	e.readCheck(lo, hi-lo, "cwrite")
	if !e.Dead {
		e.checkRev()
	}
}

func RunRevCase(e *Engine, p Profile) {
	r := e.R
	blocks := r.Range(16, 96)
	punch := r.Chance(p.PunchPct)
	nops := r.Range(p.MinOps, p.MaxOps)
	e.Cfg = map[string]interface{}{"blocks": blocks, "punch": punch, "ops": nops, "profile": "C10"}
	if err := e.Create(int64(blocks)*Block, punch); err != nil {
		e.Res.Inconclusive = append(e.Res.Inconclusive, fmt.Sprintf("case %d: create failed: %v", e.Case, err))
		return
	}
	defer e.Destroy()
	for i := 0; i < nops && !e.Dead; i++ {
		switch r.Pick([]int{50, 12, 6, 8, 10, 6}) {
		case 0:
			e.Step(p)
			if e.R.Chance(40) {
				e.checkRev()
			}
		case 1:
			if e.M.Mode == "RW" {
				e.SetMode("WO")
			} else {
				e.SetMode("RW")
			}
		case 2:
			if r.Chance(40) { // explicit sets may also go down
				e.SetRev(int64(r.Range(1, int(e.M.Rev))))
			} else {
				e.SetRev(e.M.Rev + int64(r.Range(0, 50)))
			}
		case 3:
			e.ConcurrentWrites([]int{2, 4, 8, 16}[r.Intn(4)], r.Range(3, 25))
		case 4:
			e.Reopen(r.Bool())
			e.checkRev()
		case 5:
			if e.M.Mode != "RW" {
				e.SetMode("RW") // chain operations need RW
			}
			e.Snapshot(r.Bool())
		}
		if i%8 == 7 {
			e.Check(false)
		}
	}
	e.Check(false)
	e.nMut++ // mode flips and sets are this property's mutations
}

// ---------------------------------------------------------------- C16: resize

func (e *Engine) BadResize(arg, cls string) {
	if e.Dead {
		return
	}
	op := e.rec(Op{K: "badresize", Arg: arg, Note: cls})
	err := e.Srv.Resize(arg)
	e.Res.Count("resize_refusals_probed", 1)
	if err == nil {
		_, info := e.Srv.Status()
		if info.Size != e.M.Size {
			e.Fail("C16", "resize:"+cls+"-accepted", fmt.Sprintf("Resize(%q) accepted on a volume of %d bytes; size now %d", arg, e.M.Size, info.Size))
			return
		}
		op.Note += ":noop"
		return
	}
	op.Err = err.Error()
	_, info := e.Srv.Status()
	if info.Size != e.M.Size {
		e.Fail("C16", "resize:"+cls+"-refused-but-size-changed", fmt.Sprintf("Resize(%q) refused but size is %d, was %d", arg, info.Size, e.M.Size))
	}
}

// FailedGrow: a growth during which extending one chain file fails (the oldest
// chain member's path is swapped for a directory for the duration of the call,
// so that extending it fails after the newer members were extended). The
// request must report the failure and change nothing: same size in memory and
// on disk (a copy of the directory opens with the old size and reads like the
// model), and a later growth works.
func (e *Engine) FailedGrow(add int64) {
	if e.Dead {
		return
	}
	r := e.Srv.Replica()
	if r == nil {
		return
	}
	chain, err := r.Chain()
	if err != nil || len(chain) == 0 {
		return
	}
	victim := filepath.Join(e.Dir, chain[len(chain)-1])
	aside := victim + ".aside"
	if os.Rename(victim, aside) != nil {
		return
	}
	if os.Mkdir(victim, 0700) != nil {
		os.Rename(aside, victim)
		return
	}
	op := e.rec(Op{K: "failedgrow", Size: e.M.Size + add, Note: "extending " + chain[len(chain)-1] + " fails"})
	rerr := e.Srv.Resize(strconv.FormatInt(e.M.Size+add, 10))
	os.Remove(victim)
	if err := os.Rename(aside, victim); err != nil {
		e.Dead = true
		e.Res.Inconclusive = append(e.Res.Inconclusive, fmt.Sprintf("case %d: could not restore %s: %v", e.Case, victim, err))
		return
	}
	e.Res.Count("failed_grows_probed", 1)
	if rerr == nil {
		e.Fail("C16", "resize:grow-reported-success-although-a-file-was-not-extended", fmt.Sprintf("Resize to %d returned success although %s could not be extended", e.M.Size+add, chain[len(chain)-1]))
		return
	}
	op.Err = rerr.Error()
	if _, info := e.Srv.Status(); info.Size != e.M.Size {
		e.Fail("C16", "resize:failed-grow-changed-size", fmt.Sprintf("Resize to %d failed (%v) but the replica now reports %d bytes, was %d", e.M.Size+add, rerr, info.Size, e.M.Size))
		return
	}
	got, img, err := e.openCopy()
	if err != nil {
		e.Fail("C16", "resize:failed-grow-left-directory-unreadable", fmt.Sprintf("after a failed growth to %d a copy of the directory cannot be opened and read: %v", e.M.Size+add, err))
		return
	}
	if got != e.M.Size {
		e.Fail("C16", "resize:failed-grow-changed-size", fmt.Sprintf("Resize to %d failed (%v) but a copy of the directory opens with %d bytes, was %d", e.M.Size+add, rerr, got, e.M.Size))
		return
	}
	if d, n := Diff(img, 0, e.M.Live); d != "" {
		e.Fail("C16", "resize:failed-grow-changed-data", fmt.Sprintf("after a failed growth %d sectors read differently from a copy of the directory; first: %s", n, d))
		return
	}
	// the retry must work (Resize compares the new range and the persisted size itself)
	if e.R.Chance(60) {
		e.Resize(e.M.Size+add, "bytes")
		if !e.Dead {
			l := int64(e.R.Range(1, int(add/Sector))) * Sector
			e.Write(e.M.Size-l, l)
		}
	}
}

func RunResizeCase(e *Engine, p Profile) {
	r := e.R
	blocks := r.Range(16, 96)
	punch := r.Chance(p.PunchPct)
	nops := r.Range(p.MinOps, p.MaxOps)
	e.Cfg = map[string]interface{}{"blocks": blocks, "punch": punch, "ops": nops, "profile": "C16"}
	if err := e.Create(int64(blocks)*Block, punch); err != nil {
		e.Res.Inconclusive = append(e.Res.Inconclusive, fmt.Sprintf("case %d: create failed: %v", e.Case, err))
		return
	}
	defer e.Destroy()
	for i := 0; i < nops && !e.Dead; i++ {
		switch r.Pick([]int{70, 12, 10, 8}) {
		case 0:
			e.Step(p)
		case 1:
			add := int64(r.Range(1, 24)) * Block
			how := "bytes"
			if r.Bool() {
				how = "human"
			}
			e.Resize(e.M.Size+add, how)
			// the new range accepts writes
			if !e.Dead && r.Chance(70) {
				l := int64(r.Range(1, int(add/Sector))) * Sector
				e.Write(e.M.Size-l, l)
			}
			e.Check(true)
		case 2:
			sz := e.M.Size
			switch r.Intn(5) {
			case 0:
				e.BadResize(strconv.FormatInt(sz-int64(r.Range(1, int(sz/Block)-1))*Block, 10), "shrink")
			case 1:
				e.BadResize(strconv.FormatInt(sz/2048, 10)+"k", "shrink")
			case 2:
				e.BadResize([]string{"abc", "-1", "12q", "1e3", " ", "0x1000"}[r.Intn(6)], "garbage")
			case 3:
				e.BadResize("", "empty")
			case 4:
				e.BadResize("0", "zero")
			}
			if r.Chance(35) {
				e.FailedGrow(int64(r.Range(1, 24)) * Block)
			}
			e.Check(false)
		case 3:
			e.Reopen(r.Bool())
			if _, info := e.Srv.Status(); !e.Dead && info.Size != e.M.Size {
				e.Fail("C16", "resize:size-lost-on-reopen", fmt.Sprintf("size after reopen %d, expected %d", info.Size, e.M.Size))
			}
			e.Check(true)
		}
		if i%8 == 7 {
			e.Check(false)
		}
	}
	e.Check(true)
}

// ---------------------------------------------------------------- C12: hostile chain requests

type dirState struct {
	chain []string
	files []string
}

// BadReq issues one management request that must not change anything and
// verifies that chain, attributes, files and data are as before.
func (e *Engine) BadReq(kind, name, cls string, f func() error) {
	if e.Dead {
		return
	}
	op := e.rec(Op{K: "badreq", Arg: kind, Name: name, Note: cls})
	err := f()
	e.Res.Count("bad_requests", 1)
	outcome := "accepted"
	if err != nil {
		outcome = "refused"
		op.Err = err.Error()
	}
	sig := fmt.Sprintf("badreq:%s:name-class=%s:%s", kind, cls, outcome)
	// chain and attributes
	if e.Srv.Replica() != nil {
		pre := len(e.Res.Violations)
		dead := e.Dead
		e.checkChain("after " + kind)
		if e.Dead && !dead {
			e.retag(pre, "C12", sig+":chain-changed")
			return
		}
		buf, rerr := e.FullRead()
		if rerr != nil {
			e.Fail("C12", sig+":read-error", rerr.Error())
			return
		}
		if d, n := Diff(buf, 0, e.M.Live); d != "" {
			e.Fail("C12", sig+":data-changed", fmt.Sprintf("%s(%q) was %s (%v) and %d sectors changed; first: %s", kind, name, outcome, err, n, d))
			return
		}
	}
	// every chain member still has its files
	for _, n := range e.M.ChainNames() {
		for _, suf := range []string{"", ".meta"} {
			if _, serr := os.Stat(filepath.Join(e.Dir, n+suf)); serr != nil {
				e.Fail("C12", sig+":member-file-gone", fmt.Sprintf("%s(%q) was %s (%v); chain member file %s%s is gone", kind, name, outcome, err, n, suf))
				return
			}
		}
	}
}

// retag rewrites the signature of violations recorded since index pre.
func (e *Engine) retag(pre int, prop, sig string) {
	for i := pre; i < len(e.Res.Violations); i++ {
		e.Res.Violations[i].Signature = sig
		e.Res.Violations[i].Property = prop
	}
}

func (e *Engine) hostileName() (string, string) {
	r := e.R
	n := len(e.M.Chain)
	switch r.Intn(9) {
	case 0:
		return e.M.HeadName(), "head"
	case 1:
		if n > 0 {
			return e.M.Chain[n-1].Name, "latest"
		}
	case 2:
		if n > 1 {
			return e.M.Chain[0].Name, "base"
		}
	case 3:
		return fmt.Sprintf("volume-snap-nope%d.img", r.Intn(100)), "unknown"
	case 4:
		return fmt.Sprintf("nope%d", r.Intn(100)), "no-prefix"
	case 5:
		return "volume.meta", "volume-meta"
	case 6:
		if n > 0 {
			return e.M.Chain[r.Intn(n)].Name + ".meta", "metadata-file"
		}
	case 7:
		return e.M.HeadName() + ".meta", "metadata-file"
	case 8:
		return "revision.counter", "revision-file"
	}
	return "", "empty"
}

// verifyReopen closes and reopens and compares everything with the model.
func (e *Engine) verifyReopen() {
	if e.Dead {
		return
	}
	cp := e.M.Checkpoint
	e.Reopen(e.R.Bool())
	if e.Dead {
		return
	}
	_, info := e.Srv.Status()
	if info.Size != e.M.Size {
		e.Fail("C12", "reopen:size-differs", fmt.Sprintf("size %d, model %d", info.Size, e.M.Size))
		return
	}
	if info.Checkpoint != cp {
		e.Fail("C12", "reopen:checkpoint-differs", fmt.Sprintf("checkpoint %q, model %q", info.Checkpoint, cp))
		return
	}
	e.Check(e.R.Chance(30))
}

func RunChainCase(e *Engine, p Profile) {
	r := e.R
	blocks := r.Range(16, 64)
	punch := r.Chance(p.PunchPct)
	nops := r.Range(p.MinOps, p.MaxOps)
	e.Cfg = map[string]interface{}{"blocks": blocks, "punch": punch, "ops": nops, "profile": "C12"}
	if err := e.Create(int64(blocks)*Block, punch); err != nil {
		e.Res.Inconclusive = append(e.Res.Inconclusive, fmt.Sprintf("case %d: create failed: %v", e.Case, err))
		return
	}
	defer e.Destroy()
	limit := 0
	if r.Chance(35) {
		limit = r.Range(4, 9)
		types.MaxChainLength = limit // what MAX_CHAIN_LENGTH sets in production
		e.Cfg["max_chain_length"] = limit
		// snapshots are only attempted through the near-limit operation below
		w := map[string]int{}
		for k, v := range p.W {
			w[k] = v
		}
		w["usnap"], w["asnap"] = 0, 0
		p.W = w
	}
	var orphans []string
	for i := 0; i < nops && !e.Dead; i++ {
		pick := r.Pick([]int{45, 30, 10, 5, 10})
		if limit > 0 && r.Chance(30) {
			pick = 5
		}
		switch pick {
		case 5: // snapshot near the configured chain limit: may be refused, must then change nothing
			name := fmt.Sprintf("s%d", e.M.NextSnap)
			e.M.NextSnap++
			user := r.Bool()
			op := e.rec(Op{K: "snapshot", Name: name, User: user, Note: "near-limit"})
			e.nMut++
			if err := e.Srv.Snapshot(name, user, now()); err != nil {
				op.Err = err.Error()
				op.K = "badreq"
				op.Arg = "snapshot"
				e.Res.Count("snapshots_refused_at_limit", 1)
			} else {
				e.M.Snapshot(name, user)
				e.Res.Count("snapshots", 1)
			}
			e.Check(false)
			if r.Chance(40) {
				e.verifyReopen()
			}
		case 0: // valid operations
			before := len(e.M.Chain)
			var dropped []string
			preNames := e.M.ChainNames()
			if e.Step(p) {
				if len(e.Log) > 0 && e.Log[len(e.Log)-1].K == "check" {
				}
				_ = before
				// remember orphans created by a revert
				for _, l := range e.Log[maxi(0, len(e.Log)-3):] {
					if l.K == "revert" && l.Err == "" {
						post := map[string]bool{}
						for _, n := range e.M.ChainNames() {
							post[n] = true
						}
						for _, n := range preNames[1:] {
							if !post[n] {
								dropped = append(dropped, n)
							}
						}
					}
				}
				orphans = append(orphans, dropped...)
				e.Check(false)
			}
		case 1: // requests that must be refused or be no-ops
			name, cls := e.hostileName()
			switch r.Intn(7) {
			case 0:
				e.BadReq("removedisk", name, cls, func() error { return e.Srv.RemoveDiffDisk(name) })
			case 1:
				e.BadReq("prepareremovedisk", name, cls, func() error { _, err := e.Srv.PrepareRemoveDisk(name); return err })
			case 2:
				if cls == "latest" || cls == "base" { // a valid revert target: not a bad request
					continue
				}
				e.BadReq("revert", name, cls, func() error { return e.Srv.Revert(name, now()) })
			case 3:
				// duplicate snapshot name
				if len(e.M.Chain) == 0 {
					continue
				}
				m := e.M.Chain[r.Intn(len(e.M.Chain))]
				short := strings.TrimSuffix(strings.TrimPrefix(m.Name, "volume-snap-"), ".img")
				e.BadReq("snapshot", short, "duplicate", func() error { return e.Srv.Snapshot(short, r.Bool(), now()) })
			case 4:
				src, scls := e.hostileName()
				if cls != "head" && (scls == "latest" || scls == "base" || scls == "head") {
					continue // would be a (destructive) well-formed replace, not a bad request
				}
				if cls != "head" && cls != "unknown" && cls != "no-prefix" {
					continue
				}
				e.BadReq("replacedisk", name+"<-"+src, cls+"<-"+scls, func() error { return e.Srv.ReplaceDisk(name, src) })
			case 5:
				sz := e.M.Size
				arg := strconv.FormatInt(sz-Block, 10)
				e.BadReq("resize", arg, "shrink", func() error { return e.Srv.Resize(arg) })
			case 6:
				// wrong mode: chain surgery in WO
				if len(e.M.Chain) < 3 {
					continue
				}
				x := e.M.Chain[r.Range(1, len(e.M.Chain)-2)].Name
				e.Srv.SetReplicaMode("WO")
				if r.Bool() {
					e.BadReq("removedisk", x, "valid-but-WO", func() error { return e.Srv.RemoveDiffDisk(x) })
				} else {
					e.BadReq("prepareremovedisk", x, "valid-but-WO", func() error { _, err := e.Srv.PrepareRemoveDisk(x); return err })
				}
				e.Srv.SetReplicaMode("RW")
				// the request must not have marked the disk removed
				if !e.Dead {
					e.checkChain("after WO request")
				}
			}
		case 2:
			e.verifyReopen()
		case 3: // legitimate orphan clean-up after a revert
			if len(orphans) == 0 {
				continue
			}
			o := orphans[len(orphans)-1]
			orphans = orphans[:len(orphans)-1]
			if e.M.Find(o) >= 0 || o == e.M.HeadName() {
				continue
			}
			op := e.rec(Op{K: "rmorphan", Name: o})
			if err := e.Srv.RemoveDiffDisk(o); err != nil {
				op.Err = err.Error()
			}
			e.Res.Count("orphan_removals", 1)
			e.Check(false)
		case 4: // requests on a closed replica
			if err := e.Srv.Close(); err != nil {
				e.Fail("C12", "close:error", err.Error())
				break
			}
			e.rec(Op{K: "close"})
			h1, _ := fsx.DirHash(e.Dir, nil)
			name, _ := e.hostileName()
			calls := map[string]func() error{
				"snapshot":          func() error { return e.Srv.Snapshot("zz", true, now()) },
				"removedisk":        func() error { return e.Srv.RemoveDiffDisk(name) },
				"prepareremovedisk": func() error { _, err := e.Srv.PrepareRemoveDisk(name); return err },
				"revert":            func() error { return e.Srv.Revert(name, now()) },
				"resize":            func() error { return e.Srv.Resize(strconv.FormatInt(e.M.Size+Block, 10)) },
				"setcheckpoint":     func() error { return e.Srv.SetCheckpoint("x") },
				"reload":            func() error { return e.Srv.Reload() },
			}
			for k, f := range calls {
				err := f()
				e.Res.Count("closed_state_requests", 1)
				if err == nil {
					e.Fail("C12", "closed:"+k+":accepted", k+" accepted on a closed replica")
				}
			}
			h2, _ := fsx.DirHash(e.Dir, nil)
			if h1 != h2 && !e.Dead {
				e.Fail("C12", "closed:directory-changed", "requests on a closed replica changed the directory")
			}
			e.Srv.SetPreload(r.Bool())
			if err := e.Srv.Open(); err != nil && !e.Dead {
				e.Fail("C12", "reopen:open-failed:closed-requests", err.Error())
				break
			}
			e.Srv.SetReplicaMode("RW")
			e.nReopen++
			e.Check(false)
		}
	}
	e.verifyReopen()
	_ = types.RW
}

func maxi(a, b int) int {
	if a > b {
		return a
	}
	return b
}

// ---------------------------------------------------------------- C17: gating (engine part)

func RunGateCase(e *Engine) {
	r := e.R
	blocks := r.Range(16, 48)
	e.Cfg = map[string]interface{}{"blocks": blocks, "profile": "C17"}
	if err := e.Create(int64(blocks)*Block, false); err != nil {
		e.Res.Inconclusive = append(e.Res.Inconclusive, fmt.Sprintf("case %d: create failed: %v", e.Case, err))
		return
	}
	defer e.Destroy()
	p := Profiles("C01")
	p.W["reload"] = 0
	state := "RW" // closed | INIT | RW | WO
	steps := r.Range(20, 40)
	visited := ""
	for i := 0; i < steps && !e.Dead; i++ {
		visited += state[:1]
		switch state {
		case "RW", "WO":
			switch r.Pick([]int{40, 15, 15, 15, 15}) {
			case 0:
				if state == "RW" {
					e.Step(p)
				} else {
					o, l, _ := e.GenRange()
					e.Write(o, l)
				}
			case 1: // flip mode
				if state == "RW" {
					e.SetMode("WO")
					state = "WO"
				} else {
					e.SetMode("RW")
					state = "RW"
				}
			case 2: // gated operations
				e.gateProbe(state)
			case 3: // close
				e.rec(Op{K: "close"})
				if err := e.Srv.Close(); err != nil {
					e.Fail("C17", "close:error", err.Error())
				}
				state = "closed"
			case 4:
				e.Check(false)
			}
		case "closed":
			if r.Chance(12) {
				e.failedOpenProbe()
			} else if r.Chance(60) {
				e.closedProbe()
			} else {
				e.rec(Op{K: "open"})
				e.Srv.SetPreload(r.Bool())
				if err := e.Srv.Open(); err != nil {
					e.Fail("C17", "open:error", err.Error())
					break
				}
				e.nReopen++
				state = "INIT"
			}
		case "INIT":
			if r.Chance(60) {
				e.initProbe()
			} else {
				m := []string{"RW", "WO"}[r.Intn(2)]
				e.SetMode(m)
				state = m
			}
		}
	}
	if state == "closed" {
		e.Srv.Open()
		state = "INIT"
	}
	if state != "RW" {
		e.SetMode("RW")
	}
	e.Check(false)
	e.Cfg["states"] = visited
	e.nMut++
}

// payloadFromModel rebuilds the current content of a range, so that a probe
// write cannot change the image whether or not its bytes land.
func (e *Engine) payloadFromModel(off, length int64) []byte {
	buf := make([]byte, length)
	for i := int64(0); i < length/Sector; i++ {
		s := off/Sector + i
		FillSector(buf[i*Sector:], e.M.Live[s], uint32(s))
	}
	return buf
}

func (e *Engine) gateProbe(state string) {
	r := e.R
	n := len(e.M.Chain)
	if state == "RW" {
		e.SetRev(e.M.Rev + int64(r.Intn(5)))
		return
	}
	// WO: chain surgery and counter updates are refused without side effects
	revBefore := e.Srv.Replica().GetRevisionCounter()
	h := func() string { s, _ := fsx.DirHash(e.Dir, map[string]bool{"volume.meta": true}); return s }
	before := h()
	name := fmt.Sprintf("volume-snap-nope%d.img", r.Intn(9))
	if n >= 3 {
		name = e.M.Chain[r.Range(1, n-2)].Name
	}
	probes := map[string]func() error{
		"removedisk":         func() error { return e.Srv.RemoveDiffDisk(name) },
		"prepareremovedisk":  func() error { _, err := e.Srv.PrepareRemoveDisk(name); return err },
		"replacedisk":        func() error { return e.Srv.ReplaceDisk(name, name) },
		"setrevisioncounter": func() error { return e.Srv.SetRevisionCounter(revBefore + 7) },
	}
	for k, f := range probes {
		e.rec(Op{K: "gate", Arg: k, Name: name, Note: "WO"})
		err := f()
		e.Res.Count("gate_probes_WO", 1)
		if err == nil {
			e.Fail("C17", "gate:"+k+":accepted-in-WO", fmt.Sprintf("%s(%s) accepted while the replica is WO", k, name))
			return
		}
	}
	if h() != before {
		e.Fail("C17", "gate:refused-but-directory-changed-in-WO", "a refused request changed the directory")
		return
	}
	if v := e.Srv.Replica().GetRevisionCounter(); v != revBefore {
		e.Fail("C17", "gate:counter-moved-in-WO", fmt.Sprintf("revision counter %d -> %d by refused requests", revBefore, v))
		return
	}
	e.checkChain("after WO gate probes")
}

// failedOpenProbe: an open that fails leaves the replica closed. The last step
// of every open rewrites volume.meta through volume.meta.tmp; a directory placed
// at that name makes exactly that step fail. The request must report the
// failure, the replica must then still be closed (no I/O served, no mode
// accepted), and once the obstacle is gone an ordinary open must succeed.
func (e *Engine) failedOpenProbe() {
	block := filepath.Join(e.Dir, "volume.meta.tmp")
	if err := os.Mkdir(block, 0700); err != nil {
		return
	}
	e.rec(Op{K: "gate", Arg: "open-with-failing-last-step", Note: "closed"})
	err := e.Srv.Open()
	os.Remove(block)
	e.Res.Count("gate_probes_failed_open", 1)
	if err == nil {
		// nothing failed (the layout of the open path changed): an ordinary open then; back to closed for the walk
		e.Res.Count("gate_probes_failed_open_without_failure", 1)
		if cerr := e.Srv.Close(); cerr != nil {
			e.Fail("C17", "close:error", cerr.Error())
		}
		return
	}
	if st, _ := e.Srv.Status(); st != "closed" {
		e.Fail("C17", "gate:failed-open-left-replica-"+string(st), fmt.Sprintf("Open() returned %q, yet the replica reports state %q instead of closed", err.Error(), st))
		return
	}
	buf := make([]byte, Block)
	if _, rerr := e.Srv.ReadAt(buf, 0); rerr == nil {
		e.Fail("C17", "gate:read:accepted-when-closed", "a read was served after Open() had failed")
		return
	}
	if merr := e.Srv.SetReplicaMode("RW"); merr == nil {
		e.Fail("C17", "gate:setreplicamode:accepted-when-closed", "a mode was accepted after Open() had failed")
		return
	}
	// the refused open must not stand in the way of the next one
	if oerr := e.Srv.Open(); oerr != nil {
		e.Fail("C17", "gate:open-refused-after-failed-open", fmt.Sprintf("after a failed Open() (%v) the next Open() is refused: %v", err, oerr))
		return
	}
	if cerr := e.Srv.Close(); cerr != nil {
		e.Fail("C17", "close:error", cerr.Error())
	}
}

func (e *Engine) closedProbe() {
	r := e.R
	h := func() string { s, _ := fsx.DirHash(e.Dir, nil); return s }
	before := h()
	o, l := e.RandRange()
	buf := make([]byte, l)
	probes := map[string]func() error{
		"write":              func() error { _, err := e.Srv.WriteAt(Payload(o, l, 0xfffffff0), o); return err },
		"read":               func() error { _, err := e.Srv.ReadAt(buf, o); return err },
		"sync":               func() error { _, err := e.Srv.Sync(); return err },
		"unmap":              func() error { _, err := e.Srv.Unmap(o, l); return err },
		"removedisk":         func() error { return e.Srv.RemoveDiffDisk("volume-snap-s0.img") },
		"prepareremovedisk":  func() error { _, err := e.Srv.PrepareRemoveDisk("volume-snap-s0.img"); return err },
		"setrevisioncounter": func() error { return e.Srv.SetRevisionCounter(int64(r.Intn(1000))) },
		"setreplicamode":     func() error { return e.Srv.SetReplicaMode("RW") },
		"snapshot":           func() error { return e.Srv.Snapshot("zz", true, now()) },
	}
	for k, f := range probes {
		e.rec(Op{K: "gate", Arg: k, Note: "closed"})
		err := f()
		e.Res.Count("gate_probes_closed", 1)
		if err == nil {
			e.Fail("C17", "gate:"+k+":accepted-when-closed", k+" succeeded on a closed replica")
			return
		}
	}
	if h() != before {
		e.Fail("C17", "gate:closed-directory-changed", "I/O or management requests on a closed replica changed its directory")
	}
}

func (e *Engine) initProbe() {
	// open, mode not yet set: a write must be reported as failed and must not count
	rev := e.Srv.Replica().GetRevisionCounter()
	o, l := e.RandRange()
	e.rec(Op{K: "gate", Arg: "write", Note: "INIT", Off: o, Len: l})
	_, err := e.Srv.WriteAt(e.payloadFromModel(o, l), o)
	e.Res.Count("gate_probes_INIT", 1)
	if err == nil {
		e.Fail("C17", "gate:write:acknowledged-in-INIT", "a write was acknowledged by an open replica whose mode is neither RW nor WO")
		return
	}
	if v := e.Srv.Replica().GetRevisionCounter(); v != rev {
		e.Fail("C17", "gate:write:counted-in-INIT", fmt.Sprintf("revision counter moved %d -> %d by a refused write", rev, v))
		return
	}
	for k, f := range map[string]func() error{
		"removedisk":         func() error { return e.Srv.RemoveDiffDisk("volume-snap-s0.img") },
		"prepareremovedisk":  func() error { _, err := e.Srv.PrepareRemoveDisk("volume-snap-s0.img"); return err },
		"setrevisioncounter": func() error { return e.Srv.SetRevisionCounter(rev + 3) },
	} {
		e.rec(Op{K: "gate", Arg: k, Note: "INIT"})
		if f() == nil {
			e.Fail("C17", "gate:"+k+":accepted-in-INIT", k+" accepted before a mode was set")
			return
		}
	}
}
