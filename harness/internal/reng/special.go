package reng

// placeholders, replaced below as the specialised case runners are written
func RunChainCase(e *Engine, p Profile)  { RunStd(e, p) }
func RunGateCase(e *Engine)              { RunStd(e, Profiles("C01")) }
func RunResizeCase(e *Engine, p Profile) { RunStd(e, p) }
func RunRevCase(e *Engine, p Profile)    { RunStd(e, p) }
