// Package reng is engine E1: the real replica engine (replica.Server on real
// ext4 files, the real hole-punching goroutine, the real fold routine) driven by
// generated histories next to a reference model of the block image and the
// snapshot chain.
package reng

import (
	"encoding/binary"
	"fmt"
)

const (
	Sector = 512
	Block  = 4096
)

// Member is one snapshot of the chain.
type Member struct {
	Name    string   // disk name, volume-snap-<x>.img
	User    bool     // user-created
	Removed bool     // marked removed
	Img     []uint32 // per-sector stamp (write id, 0 = never written) at snapshot time
	Exact   bool     // false once space reclamation may have thinned it
	Tainted bool     // was the fold target of a raw (non-cleaner) removal: immutability not asserted
	Rev     int64
}

// Model is the reference state of one replica directory.
type Model struct {
	Size       int64
	Chain      []*Member // base .. latest snapshot (head excluded)
	Live       []uint32
	HeadNo     int
	Rev        int64 // expected revision counter
	Mode       string
	Open       bool
	Checkpoint string
	Punch      bool // current setting of reclamation
	PunchEver  bool
	NextWID    uint32
	NextSnap   int
}

func NewModel(size int64) *Model {
	return &Model{Size: size, Live: make([]uint32, size/Sector), Rev: 1, NextWID: 1}
}

func (m *Model) HeadName() string { return fmt.Sprintf("volume-head-%03d.img", m.HeadNo) }

// ChainNames returns head..base as Replica.Chain() does.
func (m *Model) ChainNames() []string {
	out := []string{m.HeadName()}
	for i := len(m.Chain) - 1; i >= 0; i-- {
		out = append(out, m.Chain[i].Name)
	}
	return out
}

func (m *Model) Find(name string) int {
	for i, c := range m.Chain {
		if c.Name == name {
			return i
		}
	}
	return -1
}

func cloneImg(a []uint32) []uint32 { return append([]uint32(nil), a...) }

// thin marks automatic snapshots above the newest user snapshot as inexact
// (what reclamation is allowed to touch).
func (m *Model) thin() {
	if !m.Punch {
		return
	}
	last := -1
	for i, c := range m.Chain {
		if c.User {
			last = i
		}
	}
	for i := last + 1; i < len(m.Chain); i++ {
		m.Chain[i].Exact = false
	}
}

// thinPreload: preload with reclamation on may thin any automatic snapshot
// that has no user-created snapshot at or above it up to the shadowing file.
func (m *Model) thinPreload() {
	if !m.Punch {
		return
	}
	for _, c := range m.Chain {
		if !c.User {
			c.Exact = false
		}
	}
}

func (m *Model) Write(off, length int64, wid uint32) {
	for s := off / Sector; s < (off+length)/Sector; s++ {
		m.Live[s] = wid
	}
	if m.Mode == "RW" {
		m.Rev++
	}
	m.thin()
}

func (m *Model) Snapshot(name string, user bool) {
	m.Chain = append(m.Chain, &Member{Name: "volume-snap-" + name + ".img", User: user, Img: cloneImg(m.Live), Exact: true, Rev: m.Rev})
	m.HeadNo++
}

// Fold removes member i, merging it into its parent.
func (m *Model) Fold(i int, raw bool) {
	x := m.Chain[i]
	p := m.Chain[i-1]
	if raw || !(p.User && !p.Removed) {
		p.Img = x.Img
		if !x.Exact {
			p.Exact = false
		}
	}
	// else: a deletion through the cleaner route must never change a retained user snapshot; its expected
	// image stays what it was (a cleaner that picks such a victim is caught by the image comparison)
	if raw {
		p.Tainted = true
	}
	p.Rev = x.Rev
	m.Chain = append(m.Chain[:i], m.Chain[i+1:]...)
}

func (m *Model) Revert(i int) {
	m.Live = cloneImg(m.Chain[i].Img)
	m.Chain = m.Chain[:i+1]
	m.HeadNo++
}

func (m *Model) Resize(size int64) {
	grow := func(a []uint32) []uint32 {
		n := make([]uint32, size/Sector)
		copy(n, a)
		return n
	}
	m.Live = grow(m.Live)
	for _, c := range m.Chain {
		c.Img = grow(c.Img)
	}
	m.Size = size
}

// ---------------------------------------------------------------- stamps

func prf(x uint64) uint64 {
	x += 0x9e3779b97f4a7c15
	x = (x ^ (x >> 30)) * 0xbf58476d1ce4e5b9
	x = (x ^ (x >> 27)) * 0x94d049bb133111eb
	return x ^ (x >> 31)
}

// FillSector writes the unique content of (write id, absolute sector).
func FillSector(dst []byte, wid uint32, sector uint32) {
	if wid == 0 {
		for i := range dst[:Sector] {
			dst[i] = 0
		}
		return
	}
	key := uint64(wid)<<32 | uint64(sector)
	binary.LittleEndian.PutUint64(dst[0:], key)
	for j := 1; j < Sector/8; j++ {
		binary.LittleEndian.PutUint64(dst[8*j:], prf(key+uint64(j)*0x100000001b3))
	}
}

// Payload builds the data of a write.
func Payload(off, length int64, wid uint32) []byte {
	buf := make([]byte, length)
	for i := int64(0); i < length/Sector; i++ {
		FillSector(buf[i*Sector:], wid, uint32(off/Sector+i))
	}
	return buf
}

// Describe says what a sector holds.
func Describe(sec []byte) string {
	zero := true
	for _, b := range sec[:Sector] {
		if b != 0 {
			zero = false
			break
		}
	}
	if zero {
		return "zeros"
	}
	key := binary.LittleEndian.Uint64(sec)
	exp := make([]byte, Sector)
	FillSector(exp, uint32(key>>32), uint32(key))
	for i := range exp {
		if exp[i] != sec[i] {
			return "garbage"
		}
	}
	return fmt.Sprintf("write#%d(sector %d)", key>>32, uint32(key))
}

// Diff compares data read at byte offset off with the expected image and
// returns a description of the first mismatching sector ("" if equal).
func Diff(data []byte, off int64, img []uint32) (string, int) {
	exp := make([]byte, Sector)
	bad := 0
	first := ""
	for i := int64(0); i < int64(len(data))/Sector; i++ {
		s := off/Sector + i
		var w uint32
		if s < int64(len(img)) {
			w = img[s]
		}
		FillSector(exp, w, uint32(s))
		sec := data[i*Sector : (i+1)*Sector]
		same := true
		for k := range exp {
			if exp[k] != sec[k] {
				same = false
				break
			}
		}
		if !same {
			bad++
			if first == "" {
				want := "zeros"
				if w != 0 {
					want = fmt.Sprintf("write#%d", w)
				}
				first = fmt.Sprintf("sector %d (block %d): holds %s, expected %s", s, s/8, Describe(sec), want)
			}
		}
	}
	return first, bad
}
