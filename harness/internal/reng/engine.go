package reng

import (
	"encoding/json"
	"fmt"
	"io"
	"os"
	"path/filepath"
	"reflect"
	"runtime"
	"strconv"
	"strings"
	"sync"
	"syscall"
	"time"

	"github.com/openebs/jiva/replica"
	"github.com/openebs/jiva/types"
	"github.com/openebs/sparse-tools/sparse"
	"github.com/sirupsen/logrus"

	"verif/harness/internal/fsx"
	"verif/harness/internal/vk"
)

// Op is one recorded step of a history.
type Op struct {
	K       string `json:"k"`
	Off     int64  `json:"off,omitempty"`
	Len     int64  `json:"len,omitempty"`
	WID     uint32 `json:"wid,omitempty"`
	Name    string `json:"name,omitempty"`
	User    bool   `json:"user,omitempty"`
	Preload bool   `json:"preload,omitempty"`
	Size    int64  `json:"size,omitempty"`
	Arg     string `json:"arg,omitempty"`
	Err     string `json:"err,omitempty"`
	Note    string `json:"note,omitempty"`
}

// Engine runs one history on one replica directory.
type Engine struct {
	Prop    string
	Dir     string
	Srv     *replica.Server
	M       *Model
	R       *vk.Rand
	Res     *vk.Result
	Log     []Op
	Seed    uint64
	Case    int
	Dead    bool
	Preload bool // server's preload setting
	Journal *os.File
	Cfg     map[string]interface{}
	Retag   string
	// statistics of the case, used for the non-triviality rule
	nUnaligned, nMut, nReopen, nStraddle, nWrites int
	// freed: short names of snapshots that were deleted (a later snapshot may be given such a name again, as a
	// rotating "daily" snapshot would); ForceName: replay
	freed     []string
	ForceName string
}

var holeOnce sync.Once

// windowHook lets a monitor act at a point inside a jiva call that the code
// itself announces in its log (e.g. between the extent scan and the map merge
// of UpdateLUNMap) without touching the source. Fatal/panic entries are copied
// to stderr so that a dying worker leaves a trace although normal log output
// is discarded.
type windowHook struct {
	mu  sync.Mutex
	msg string
	cb  func()
}

var WinHook = &windowHook{}

func (h *windowHook) Levels() []logrus.Level { return logrus.AllLevels }
func (h *windowHook) Fire(en *logrus.Entry) error {
	if en.Level <= logrus.FatalLevel {
		fmt.Fprintf(os.Stderr, "level=fatal msg=%q\n", en.Message)
		return nil
	}
	h.mu.Lock()
	cb := h.cb
	if cb != nil && en.Message == h.msg {
		h.cb = nil
	} else {
		cb = nil
	}
	h.mu.Unlock()
	if cb != nil {
		cb()
	}
	return nil
}

// Arm registers cb to run once, synchronously, when msg is logged.
func (h *windowHook) Arm(msg string, cb func()) {
	h.mu.Lock()
	h.msg, h.cb = msg, cb
	h.mu.Unlock()
}

// Disarm returns true if the callback never ran.
func (h *windowHook) Disarm() bool {
	h.mu.Lock()
	defer h.mu.Unlock()
	pending := h.cb != nil
	h.cb = nil
	return pending
}

var logOnce sync.Once

// QuietLogs discards jiva's log output but keeps hooks firing.
func QuietLogs() {
	logOnce.Do(func() {
		logrus.SetOutput(io.Discard)
		if p := os.Getenv("VERIF_DEV_JIVALOG"); p != "" {
			// dev aid: keep what the in-process jiva code logs
			if f, err := os.OpenFile(p, os.O_CREATE|os.O_APPEND|os.O_WRONLY, 0644); err == nil {
				logrus.SetOutput(f)
			}
		}
		logrus.AddHook(WinHook)
	})
}

// StartHolePuncher starts the real CreateHoles goroutine once per process.
func StartHolePuncher() {
	holeOnce.Do(func() { go replica.CreateHoles() })
}

// RaiseFdLimit lifts RLIMIT_NOFILE: the pinned tree leaves files of replaced
// Replica objects to the garbage collector.
func RaiseFdLimit() {
	var l syscall.Rlimit
	if syscall.Getrlimit(syscall.RLIMIT_NOFILE, &l) == nil {
		l.Cur = l.Max
		syscall.Setrlimit(syscall.RLIMIT_NOFILE, &l)
	}
}

func holesIdle() {
	for i := 0; i < 2; i++ {
		for n := 0; len(replica.HoleCreatorChan) > 0 && n < 5000; n++ {
			time.Sleep(time.Millisecond)
		}
		time.Sleep(10 * time.Millisecond)
	}
}

func now() string { return time.Now().UTC().Format(time.RFC3339) }

func (e *Engine) journal(op *Op) {
	if e.Journal != nil {
		b, _ := json.Marshal(op)
		e.Journal.Write(append(b, '\n'))
	}
}

func (e *Engine) rec(op Op) *Op {
	e.Log = append(e.Log, op)
	p := &e.Log[len(e.Log)-1]
	e.journal(p)
	return p
}

// Fail records a violation of property prop. Only violations of the property
// under check bear on the verdict of this run; others are counted.
// Observe records a refuting observation that leaves the live-data model intact (a changed snapshot, a
// structural defect): it is a violation when its property is the one under check, otherwise it is only
// counted and the history goes on (what it leads to is then seen by the run's own oracles).
func (e *Engine) Observe(prop, sig, what string) {
	if prop == e.Prop || e.Retag != "" {
		e.Fail(prop, sig, what)
		return
	}
	e.Res.Count("other_property_observation:"+prop+":"+sig, 1)
}

// FailAny reports under the property being checked if it is one of props.
func (e *Engine) FailAny(props []string, sig, what string) {
	for _, p := range props {
		if p == e.Prop {
			e.Fail(p, sig, what)
			return
		}
	}
	e.Fail(props[0], sig, what)
}

func (e *Engine) Fail(prop, sig, what string) {
	e.Dead = true
	if e.Retag != "" && prop != e.Retag {
		// inside a deletion scenario a changed live image or snapshot is a violation of the deletion property
		sig = "after-deletion:" + prop + ":" + sig
		prop = e.Retag
	}
	if prop != e.Prop {
		e.Res.Count("other_property_observation:"+prop+":"+sig, 1)
		return
	}
	w := map[string]interface{}{"config": e.Cfg, "ops": append([]Op(nil), e.Log...)}
	e.Res.Violate(vk.Violation{Property: prop, Signature: sig, What: what, Seed: e.Seed, Case: e.Case, Witness: w})
}

// Create makes a fresh replica of the given size and opens it RW.
func (e *Engine) Create(size int64, punch bool) error {
	os.RemoveAll(e.Dir)
	if err := os.MkdirAll(e.Dir, 0700); err != nil {
		return err
	}
	e.Srv = replica.NewServer("127.0.0.1:9502", e.Dir, 512, "")
	if err := e.Srv.Create(size); err != nil {
		return fmt.Errorf("create: %v", err)
	}
	e.Preload = true
	if err := e.Srv.Open(); err != nil {
		return fmt.Errorf("open: %v", err)
	}
	if err := e.Srv.SetReplicaMode("RW"); err != nil {
		return err
	}
	e.M = NewModel(size)
	e.M.Mode = "RW"
	e.M.Open = true
	e.M.Punch = punch
	e.M.PunchEver = punch
	types.ShouldPunchHoles = punch
	return nil
}

// Destroy closes the replica and removes its directory.
func (e *Engine) Destroy() {
	if e.Srv != nil && e.Srv.Replica() != nil {
		e.Srv.Close()
	}
	types.ShouldPunchHoles = false
	types.MaxChainLength = 0
	os.RemoveAll(e.Dir)
	os.RemoveAll(e.Dir + ".roc")
}

func alignedClass(off, length int64) string {
	switch {
	case off%Block == 0 && length%Block == 0:
		if length == Block {
			return "B1"
		}
		return "Bn"
	case off/Block == (off+length-1)/Block:
		return "in"
	default:
		return "sp"
	}
}

// ---------------------------------------------------------------- I/O

func (e *Engine) Write(off, length int64) {
	if e.Dead {
		return
	}
	wid := e.M.NextWID
	e.M.NextWID++
	op := e.rec(Op{K: "write", Off: off, Len: length, WID: wid, Note: alignedClass(off, length)})
	buf := Payload(off, length, wid)
	_, err := e.Srv.WriteAt(buf, off)
	e.Res.Count("writes", 1)
	e.nWrites++
	if alignedClass(off, length) != "B1" && alignedClass(off, length) != "Bn" {
		e.nUnaligned++
	}
	if err != nil {
		op.Err = err.Error()
		e.Fail("C01", "write:error-in-"+e.M.Mode, fmt.Sprintf("write of %d bytes at %d failed on an open %s replica: %v", length, off, e.M.Mode, err))
		return
	}
	e.M.Write(off, length, wid)
	// read back the touched range and one random range
	e.readCheck(off, length, "readback")
	if !e.Dead && e.R.Chance(50) {
		o, l := e.RandRange()
		e.readCheck(o, l, "readback-other")
	}
}

func (e *Engine) Read(off, length int64) {
	if e.Dead {
		return
	}
	e.rec(Op{K: "read", Off: off, Len: length, Note: alignedClass(off, length)})
	e.readCheck(off, length, "read")
}

func (e *Engine) readCheck(off, length int64, why string) {
	buf := make([]byte, length)
	_, err := e.Srv.ReadAt(buf, off)
	e.Res.Count("reads", 1)
	e.Res.Count("bytes_compared", length)
	if err != nil {
		e.Fail("C01", "read:error", fmt.Sprintf("%s of %d bytes at %d failed: %v", why, length, off, err))
		return
	}
	if d, n := Diff(buf, off, e.M.Live); d != "" {
		e.Fail("C01", "read:mismatch:"+why+":"+e.lastMut(), fmt.Sprintf("%s [%d,+%d): %d sectors differ; first: %s", why, off, length, n, d))
	}
}

// lastMut names the most recent chain mutation or reopen, to make violation
// signatures discriminate by the kind of event that precedes the mismatch.
func (e *Engine) lastMut() string {
	for i := len(e.Log) - 1; i >= 0; i-- {
		switch e.Log[i].K {
		case "snapshot", "remove", "rawremove", "revert", "reopen", "reload", "resize", "lunmap":
			return e.Log[i].K
		}
	}
	return "none"
}

// FullRead reads the whole volume through the server.
func (e *Engine) FullRead() ([]byte, error) {
	buf := make([]byte, e.M.Size)
	// alternate between one big read and chunked reads
	if e.R.Bool() {
		_, err := e.Srv.ReadAt(buf, 0)
		return buf, err
	}
	chunk := int64(e.R.Range(1, 24)) * Sector * 8
	for off := int64(0); off < e.M.Size; off += chunk {
		n := chunk
		if off+n > e.M.Size {
			n = e.M.Size - off
		}
		if _, err := e.Srv.ReadAt(buf[off:off+n], off); err != nil {
			return buf, err
		}
	}
	return buf, nil
}

// ---------------------------------------------------------------- chain ops

func (e *Engine) Snapshot(user bool) {
	if e.Dead {
		return
	}
	name := fmt.Sprintf("s%d", e.M.NextSnap)
	e.M.NextSnap++
	if e.ForceName != "" {
		name, e.ForceName = e.ForceName, ""
	} else if len(e.freed) > 0 && e.R.Chance(45) {
		// the name of a deleted snapshot is used again
		k := e.R.Intn(len(e.freed))
		name = e.freed[k]
		e.freed = append(e.freed[:k], e.freed[k+1:]...)
		e.Res.Count("snapshots_reusing_a_deleted_name", 1)
	}
	op := e.rec(Op{K: "snapshot", Name: name, User: user})
	err := e.Srv.Snapshot(name, user, now())
	e.nMut++
	e.Res.Count("snapshots", 1)
	if err != nil {
		op.Err = err.Error()
		e.Fail("C12", "snapshot:valid-refused", fmt.Sprintf("snapshot %s refused: %v", name, err))
		return
	}
	e.M.Snapshot(name, user)
}

type foldStub struct{}

func (foldStub) UpdateFoldFileProgress(progress int, done bool, err error) {}

// Remove deletes chain member i through the production action list:
// PrepareRemoveDisk -> coalesce (the fold routine sfold runs) -> RemoveDiffDisk.
func (e *Engine) Remove(i int, raw bool) {
	if e.Dead {
		return
	}
	x := e.M.Chain[i]
	k := "remove"
	if raw {
		k = "rawremove"
	}
	op := e.rec(Op{K: k, Name: x.Name})
	acts, err := e.Srv.PrepareRemoveDisk(x.Name)
	e.nMut++
	if err != nil {
		op.Err = err.Error()
		e.Fail("C12", "remove:valid-refused", fmt.Sprintf("prepare-remove of %s refused: %v", x.Name, err))
		return
	}
	x.Removed = true
	if len(acts) != 2 || acts[0].Action != replica.OpCoalesce || acts[1].Action != replica.OpRemove ||
		acts[0].Source != x.Name || acts[0].Target != e.M.Chain[i-1].Name || acts[1].Source != x.Name {
		e.Fail("C11", "remove:wrong-actions", fmt.Sprintf("prepare-remove of %s returned %+v (parent %s)", x.Name, acts, e.M.Chain[i-1].Name))
		return
	}
	if err := sparse.FoldFile(filepath.Join(e.Dir, acts[0].Source), filepath.Join(e.Dir, acts[0].Target), foldStub{}); err != nil {
		op.Err = err.Error()
		e.Fail("C11", "remove:fold-failed", fmt.Sprintf("fold %s into %s: %v", acts[0].Source, acts[0].Target, err))
		return
	}
	if err := e.Srv.RemoveDiffDisk(x.Name); err != nil {
		op.Err = err.Error()
		e.Fail("C12", "remove:valid-refused", fmt.Sprintf("removedisk %s refused: %v", x.Name, err))
		return
	}
	e.Res.Count("removals", 1)
	e.M.Fold(i, raw)
	e.freed = append(e.freed, strings.TrimSuffix(strings.TrimPrefix(x.Name, "volume-snap-"), ".img"))
}

// MarkRemoved is the user deletion request: it only marks the snapshot.
func (e *Engine) MarkRemoved(i int) {
	if e.Dead {
		return
	}
	x := e.M.Chain[i]
	op := e.rec(Op{K: "markremoved", Name: x.Name})
	_, err := e.Srv.PrepareRemoveDisk(x.Name)
	if err != nil {
		op.Err = err.Error()
		e.Fail("C12", "markremoved:valid-refused", fmt.Sprintf("prepare-remove of %s refused: %v", x.Name, err))
		return
	}
	x.Removed = true
	e.Res.Count("markremoved", 1)
}

func (e *Engine) Revert(i int) {
	if e.Dead {
		return
	}
	x := e.M.Chain[i]
	op := e.rec(Op{K: "revert", Name: x.Name, User: x.User})
	// what the replica's main goroutine does once after start-up (app/replica.go): it fetches s.Replica() and records
	// the clone status on that object. If a revert replaces the replica object in between, the call lands on the
	// replaced object - fetched before, executed after the revert (it waits for the lock the revert holds).
	late := e.R.Chance(30)
	before := e.Srv.Replica()
	err := e.Srv.Revert(x.Name, now())
	e.nMut++
	e.Res.Count("reverts", 1)
	if err != nil {
		op.Err = err.Error()
		e.Fail("C12", "revert:valid-refused", fmt.Sprintf("revert to %s refused: %v", x.Name, err))
		return
	}
	e.M.Revert(i)
	if late && before != nil {
		op.Note = "clone status recorded on the replaced replica object"
		before.SetCloneStatus("NA")
		e.Res.Count("reverts_followed_by_a_metadata_write_of_the_replaced_object", 1)
		// the directory must still be what a restart would need: it opens and reads like the model
		if got, img, cerr := e.openCopy(); cerr != nil {
			e.FailAny([]string{"C12", "C06", "C08"}, "revert:directory-unopenable-after-late-metadata-write", fmt.Sprintf("after a revert to %s, a clone-status update that was under way on the replaced replica object rewrote volume.meta: a copy of the directory cannot be opened: %v", x.Name, cerr))
			return
		} else if got != e.M.Size {
			e.FailAny([]string{"C12", "C06"}, "revert:size-differs-after-late-metadata-write", fmt.Sprintf("a copy of the directory opens with size %d, expected %d", got, e.M.Size))
			return
		} else if d, n := Diff(img, 0, e.M.Live); d != "" {
			e.FailAny([]string{"C12", "C06", "C08"}, "revert:directory-differs-after-late-metadata-write", fmt.Sprintf("after a revert to %s and a clone-status update on the replaced replica object, a copy of the directory reads differently from the reverted volume in %d sectors; first: %s", x.Name, n, d))
			return
		}
	}
	buf, err := e.FullRead()
	if err != nil {
		e.Fail("C06", "revert:read-error", err.Error())
		return
	}
	if d, n := Diff(buf, 0, e.M.Live); d != "" {
		cls := "auto"
		if x.User {
			cls = "user"
		}
		e.FailAny([]string{"C06", "C01"}, "revert:inplace-mismatch:"+cls, fmt.Sprintf("after revert to %s the volume differs from the snapshot image in %d sectors; first: %s", x.Name, n, d))
	}
}

func (e *Engine) Reopen(preload bool) {
	if e.Dead {
		return
	}
	op := e.rec(Op{K: "reopen", Preload: preload})
	e.nReopen++
	e.Res.Count("reopens", 1)
	if err := e.Srv.Close(); err != nil {
		op.Err = err.Error()
		e.Fail("C12", "close:error", err.Error())
		return
	}
	e.Srv.SetPreload(preload)
	e.Preload = preload
	if err := e.Srv.Open(); err != nil {
		op.Err = err.Error()
		e.Fail("C12", "reopen:open-failed:"+e.lastMutBefore(), fmt.Sprintf("open after close failed: %v", err))
		return
	}
	e.Srv.SetReplicaMode(e.M.Mode)
	if preload {
		e.M.thinPreload()
	}
}

func (e *Engine) lastMutBefore() string {
	for i := len(e.Log) - 2; i >= 0; i-- {
		switch e.Log[i].K {
		case "snapshot", "remove", "rawremove", "revert", "reload", "resize", "badreq":
			return e.Log[i].K
		}
	}
	return "none"
}

func (e *Engine) Reload() {
	if e.Dead {
		return
	}
	op := e.rec(Op{K: "reload", Preload: e.Preload})
	e.nReopen++
	e.Res.Count("reloads", 1)
	if err := e.Srv.Reload(); err != nil {
		op.Err = err.Error()
		e.Fail("C12", "reload:error", err.Error())
		return
	}
	// Server.Reload switches reclamation on (production behaviour)
	e.M.Punch = true
	e.M.PunchEver = true
	if e.Preload {
		e.M.thinPreload()
	}
}

// LunMap replays the rebuild bookkeeping of a freshly synced replica:
// reload without preload, then UpdateLUNMap, with foreground writes landing
// before the extent scan and in the window between scan and merge.
func (e *Engine) LunMap() {
	if e.Dead {
		return
	}
	op := e.rec(Op{K: "lunmap"})
	e.nReopen++
	e.Srv.SetPreload(false)
	err := e.Srv.Reload()
	e.Srv.SetPreload(e.Preload)
	if err != nil {
		op.Err = err.Error()
		e.Fail("C12", "reload:error", err.Error())
		return
	}
	e.M.Punch = true
	e.M.PunchEver = true
	for i := e.R.Intn(3); i > 0 && !e.Dead; i-- {
		o, l, _ := e.GenRange()
		e.Write(o, l)
	}
	nwin := e.R.Range(0, 3)
	WinHook.Arm("Read extents successful", func() {
		for i := 0; i < nwin && !e.Dead; i++ {
			o, l, _ := e.GenRange()
			e.Write(o, l)
			e.Res.Count("writes_in_lunmap_window", 1)
		}
	})
	err = e.Srv.UpdateLUNMap()
	if WinHook.Disarm() {
		e.Res.Count("lunmap_window_not_reached", 1)
	}
	e.Res.Count("lunmap_updates", 1)
	if err != nil {
		e.rec(Op{K: "lunmap-result", Err: err.Error()})
		e.Fail("C01", "lunmap:error", err.Error())
		return
	}
	e.M.thinPreload()
}

func (e *Engine) Resize(size int64, how string) {
	if e.Dead {
		return
	}
	arg := strconv.FormatInt(size, 10)
	if how == "human" && size%(1<<10) == 0 {
		arg = strconv.FormatInt(size>>10, 10) + "k"
	}
	op := e.rec(Op{K: "resize", Size: size, Arg: arg})
	e.nMut++
	err := e.Srv.Resize(arg)
	e.Res.Count("resizes", 1)
	if err != nil {
		op.Err = err.Error()
		e.Fail("C16", "resize:grow-refused", fmt.Sprintf("resize %d -> %s refused: %v", e.M.Size, arg, err))
		return
	}
	old := e.M.Size
	e.M.Resize(size)
	if st, info := e.Srv.Status(); info.Size != size {
		e.Fail("C16", "resize:size-not-reported", fmt.Sprintf("after resize to %d Status() reports %d (state %s)", size, info.Size, st))
		return
	}
	// the new size is on disk when the call returns: the directory as it is now (what a crash would leave behind;
	// no Close has rewritten the metadata) opens with the new size and reads like the model
	if got, img, err := e.openCopy(); err != nil {
		e.Fail("C16", "resize:copy-of-directory-unopenable", fmt.Sprintf("after resize to %d a copy of the directory cannot be opened: %v", size, err))
		return
	} else if got != size {
		e.Fail("C16", "resize:size-not-persisted", fmt.Sprintf("resize %d -> %d returned success, but a copy of the directory taken right afterwards opens with size %d", old, size, got))
		return
	} else if d, n := Diff(img, 0, e.M.Live); d != "" {
		e.Fail("C16", "resize:persisted-image-differs", fmt.Sprintf("a copy of the directory taken right after the resize reads differently in %d sectors; first: %s", n, d))
		return
	}
	e.Res.Count("resize_persistence_checks", 1)
	// the added range reads as zeros
	if size > old {
		buf := make([]byte, size-old)
		if _, err := e.Srv.ReadAt(buf, old); err != nil {
			e.Fail("C16", "resize:new-range-read-error", err.Error())
			return
		}
		if d, n := Diff(buf, old, e.M.Live); d != "" {
			e.Fail("C16", "resize:new-range-not-zero", fmt.Sprintf("%d sectors of the added range are not zero; first: %s", n, d))
		}
	}
}

func (e *Engine) SetCheckpoint(name string) {
	if e.Dead {
		return
	}
	op := e.rec(Op{K: "setcheckpoint", Name: name})
	if err := e.Srv.SetCheckpoint(name); err != nil {
		op.Err = err.Error()
		e.Fail("C12", "setcheckpoint:error", err.Error())
		return
	}
	e.M.Checkpoint = name
}

// ---------------------------------------------------------------- oracles at quiescent points

// openCopy opens an extent-exact copy of the directory (preload on, reclamation
// off) and returns the size it reports and the live image it reads.
func (e *Engine) openCopy() (int64, []byte, error) {
	tmp := e.Dir + ".roc"
	os.RemoveAll(tmp)
	defer os.RemoveAll(tmp)
	if err := fsx.CopyDir(e.Dir, tmp); err != nil {
		return 0, nil, fmt.Errorf("copy: %v", err)
	}
	save := types.ShouldPunchHoles
	types.ShouldPunchHoles = false
	defer func() { types.ShouldPunchHoles = save }()
	r, err := replica.New(true, e.M.Size, 512, tmp, nil, "")
	if err != nil {
		return 0, nil, fmt.Errorf("open copy: %v", err)
	}
	defer r.Close()
	size := r.Info().Size
	buf := make([]byte, size)
	if _, err := r.ReadAt(buf, 0); err != nil {
		return size, nil, fmt.Errorf("read copy: %v", err)
	}
	return size, buf, nil
}

// RevertOnCopy returns the volume image of snapshot name, obtained by reverting
// an extent-exact copy of the directory (the live directory is not touched).
func (e *Engine) RevertOnCopy(name string) ([]byte, error) {
	tmp := e.Dir + ".roc"
	os.RemoveAll(tmp)
	defer os.RemoveAll(tmp)
	if err := fsx.CopyDir(e.Dir, tmp); err != nil {
		return nil, fmt.Errorf("copy: %v", err)
	}
	save := types.ShouldPunchHoles
	types.ShouldPunchHoles = false
	defer func() { types.ShouldPunchHoles = save }()
	r, err := replica.New(true, e.M.Size, 512, tmp, nil, "")
	if err != nil {
		return nil, fmt.Errorf("open copy: %v", err)
	}
	r2, err := r.Revert(name, now())
	if err != nil {
		return nil, fmt.Errorf("revert copy: %v", err)
	}
	info := r2.Info()
	buf := make([]byte, info.Size)
	if _, err := r2.ReadAt(buf, 0); err != nil {
		return nil, fmt.Errorf("read copy: %v", err)
	}
	r2.Close()
	return buf, nil
}

// Check is the quiescent-point oracle.
func (e *Engine) Check(deep bool) {
	if e.Dead {
		return
	}
	e.rec(Op{K: "check"})
	holesIdle()
	e.Res.Count("quiescent_checks", 1)
	// live image
	buf, err := e.FullRead()
	e.Res.Count("bytes_compared", e.M.Size)
	if err != nil {
		e.Fail("C01", "fullread:error", err.Error())
		return
	}
	if d, n := Diff(buf, 0, e.M.Live); d != "" {
		e.Fail("C01", "fullread:mismatch:"+e.lastMut(), fmt.Sprintf("full read: %d sectors differ; first: %s", n, d))
		return
	}
	// chain
	e.checkChain("quiescent")
	if e.Dead {
		return
	}
	e.checkStructure()
	if e.Dead {
		return
	}
	// revision counter
	e.checkRev()
	if !deep || e.Dead {
		return
	}
	// retained user snapshots
	for _, c := range e.M.Chain {
		verdict := c.User && !c.Removed && !c.Tainted
		aux := !c.User && c.Exact && !e.M.PunchEver && !c.Tainted
		if !verdict && !aux {
			continue
		}
		img, err := e.RevertOnCopy(c.Name)
		e.Res.Count("snapshot_images_compared", 1)
		if err != nil {
			if verdict {
				e.Fail("C06", "snapshot:unreadable:"+e.lastMut(), fmt.Sprintf("revert-on-copy of %s failed: %v", c.Name, err))
				return
			}
			e.Res.Count("aux_auto_snapshot_unreadable", 1)
			continue
		}
		if d, n := Diff(img, 0, c.Img); d != "" {
			if verdict {
				e.Observe("C06", "snapshot:changed:"+e.lastMut(), fmt.Sprintf("user snapshot %s changed: %d sectors differ from the image at creation; first: %s", c.Name, n, d))
				if e.Dead {
					return
				}
				continue
			}
			e.Res.Count("aux_auto_snapshot_changed_without_reclamation", 1)
		}
	}
	runtime.GC()
}

func max0(i int) int {
	if i < 0 {
		return 0
	}
	return i
}

func (e *Engine) checkChain(when string) {
	r := e.Srv.Replica()
	if r == nil {
		return
	}
	chain, err := r.Chain()
	if err != nil {
		e.Fail("C12", "chain:broken:"+e.lastMut(), fmt.Sprintf("%s: Chain(): %v", when, err))
		return
	}
	if !reflect.DeepEqual(chain, e.M.ChainNames()) {
		e.Fail("C12", "chain:differs:"+e.lastMut(), fmt.Sprintf("%s: chain %v, model %v", when, chain, e.M.ChainNames()))
		return
	}
	seen := map[string]bool{}
	for _, n := range chain {
		if seen[n] {
			e.Fail("C12", "chain:cycle", fmt.Sprintf("chain repeats %s: %v", n, chain))
			return
		}
		seen[n] = true
		for _, suf := range []string{"", ".meta"} {
			if _, err := os.Stat(filepath.Join(e.Dir, n+suf)); err != nil {
				e.Fail("C12", "chain:file-missing:"+e.lastMut(), fmt.Sprintf("chain member %s lacks %s%s", n, n, suf))
				return
			}
		}
	}
	disks := r.ListDisks()
	for _, c := range e.M.Chain {
		d, ok := disks[c.Name]
		if !ok {
			e.Fail("C12", "chain:disk-missing", fmt.Sprintf("ListDisks lacks %s", c.Name))
			return
		}
		if d.UserCreated != c.User || d.Removed != c.Removed {
			e.Fail("C12", "chain:attrs-differ:"+e.lastMut(), fmt.Sprintf("%s: usercreated=%v removed=%v, model %v %v", c.Name, d.UserCreated, d.Removed, c.User, c.Removed))
			return
		}
	}
	// the links reported per member describe the same path: chain[i]'s parent is chain[i+1] (none for the base), and
	// among its children exactly one is a chain member, chain[i-1] (disks outside the live chain - left behind by a
	// revert - may hang off a member as further children)
	inChain := map[string]int{}
	for i, n := range chain {
		inChain[n] = i
	}
	for i, n := range chain {
		d := disks[n]
		wantParent := ""
		if i+1 < len(chain) {
			wantParent = chain[i+1]
		}
		if d.Parent != wantParent {
			e.Fail("C12", "chain:parent-link-differs:"+e.lastMut(), fmt.Sprintf("%s: %s reports parent %q, the chain %v says %q", when, n, d.Parent, chain, wantParent))
			return
		}
		for _, ch := range d.Children {
			if j, ok := inChain[ch]; ok && j != i-1 {
				e.Fail("C12", "chain:child-link-differs:"+e.lastMut(), fmt.Sprintf("%s: %s reports the chain member %s as its child, but in the chain %v its only child is %v", when, n, ch, chain, chain[max0(i-1):i]))
				return
			}
		}
	}
	e.Res.Count("chain_checks", 1)
}

func (e *Engine) checkRev() {
	r := e.Srv.Replica()
	if r == nil {
		return
	}
	got := r.GetRevisionCounter()
	e.Res.Count("revision_samples", 1)
	if got != e.M.Rev {
		e.Fail("C10", "rev:count-differs:"+e.M.Mode, fmt.Sprintf("revision counter %d, expected %d (mode %s)", got, e.M.Rev, e.M.Mode))
		return
	}
	if e.R.Chance(30) {
		p, err := e.Srv.GetRevisionCounter()
		if err != nil || p != e.M.Rev {
			e.Fail("C10", "rev:persisted-differs", fmt.Sprintf("persisted revision counter %d (err %v), expected %d", p, err, e.M.Rev))
		}
	}
}

// RandRange returns a random sector-aligned range.
func (e *Engine) RandRange() (int64, int64) {
	secs := e.M.Size / Sector
	o := int64(e.R.Intn(int(secs)))
	l := int64(e.R.Range(1, 40))
	if o+l > secs {
		l = secs - o
	}
	return o * Sector, l * Sector
}

// Stats for the non-triviality rule.
func (e *Engine) CaseSig() (string, bool) {
	nontrivial := e.nUnaligned > 0 && e.nMut > 0 && e.nReopen > 0
	h := ""
	for _, o := range e.Log {
		switch o.K {
		case "write", "read":
			h += o.K[:1] + o.Note + ","
		case "check":
		default:
			h += o.K + ","
		}
	}
	return fmt.Sprintf("%x", vk.Mix(0, h)), nontrivial
}

// checkStructure asserts, on the hooked in-memory state (VerifVolume, taken
// under the server lock at a quiescent point), the invariants that make reads
// and reclamation correct: a known block-map entry points at the topmost file
// that has an extent for the block, and the reclamation boundary protects every
// retained user-created snapshot. It localises faults the behavioural oracles
// see later (or only with the right follow-up write).
func (e *Engine) checkStructure() {
	v := e.Srv.VerifVolume()
	if !v.Open {
		return
	}
	e.Res.Count("structure_checks", 1)
	if len(v.Files)+1 != v.NumFiles || len(v.Files) != len(e.M.Chain)+1 {
		e.Fail("C12", "structure:file-table-length", fmt.Sprintf("file table has %d entries, chain members %d, model chain %d", v.NumFiles, len(v.Files), len(e.M.Chain)+1))
		return
	}
	nb := int(v.Size / Block)
	if len(v.Location) < nb {
		e.Fail("C16", "structure:block-map-shorter-than-volume", fmt.Sprintf("block map has %d entries for %d blocks", len(v.Location), nb))
		return
	}
	top := make([]int, nb)
	for i, name := range v.Files {
		exts, _, err := fsx.Extents(filepath.Join(e.Dir, name))
		if err != nil {
			return
		}
		for _, x := range exts {
			for b := x.Off / Block; b < (x.Off+x.Len+Block-1)/Block && int(b) < nb; b++ {
				top[b] = i + 1
			}
		}
	}
	for b := 0; b < nb; b++ {
		loc := int(v.Location[b])
		switch {
		case loc == 0:
		case loc >= v.NumFiles:
			e.Fail("C01", "structure:block-map-index-out-of-range", fmt.Sprintf("block %d maps to file index %d of %d", b, loc, v.NumFiles))
			return
		case top[b] != 0 && loc != top[b]:
			e.Fail("C01", "structure:block-map-not-topmost:"+e.lastMut(), fmt.Sprintf("block %d maps to file %d (%s) but the topmost file with data there is %d (%s)", b, loc, v.Files[loc-1], top[b], v.Files[top[b]-1]))
			return
		case top[b] == 0 && loc != 1:
			e.Fail("C01", "structure:block-map-points-at-hole:"+e.lastMut(), fmt.Sprintf("block %d maps to file %d (%s) which has no data there, nor has any other file", b, loc, v.Files[loc-1]))
			return
		}
	}
	newest := 0
	for i, c := range e.M.Chain {
		if c.User && !c.Removed {
			newest = i + 1
		}
	}
	if v.SnapIndx < newest {
		e.Observe("C06", "structure:user-snapshot-outside-reclamation-boundary:"+e.lastMut(), fmt.Sprintf("newest retained user snapshot is file %d (%s) but the reclamation boundary (SnapIndx) is %d: its blocks may be punched", newest, v.Files[newest-1], v.SnapIndx))
	}
}
