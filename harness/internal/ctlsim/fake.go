// Package ctlsim is engine E2: the real controller (controller.Controller with
// its replicator, MultiWriterAt, rebuild and revert code, optionally behind the
// real controller/rest router) over scripted replicas. A scripted replica is a
// types.Backend fake that reproduces the monitor-channel behaviour of
// backend/remote.Remote plus a small HTTP stub on its own loopback address
// answering what the controller asks replicas over REST.
package ctlsim

import (
	"encoding/binary"
	"encoding/json"
	"fmt"
	units "github.com/docker/go-units"
	"net"
	"net/http"
	"strconv"
	"strings"
	"sync"
	"sync/atomic"
	"time"

	"github.com/openebs/jiva/replica/rest"
	"github.com/openebs/jiva/types"
	rclient "github.com/rancher/go-rancher/client"
)

// Outcome scripts how a fake handles its next I/O call.
type Outcome int

const (
	OK Outcome = iota
	ErrNotApplied
	AppliedThenErr // lost reply
	DelayThenErr   // timeout: nothing applied, error after a delay
	ErrMonBefore   // error, and the monitor reports the failure before the call returns
	ErrMonAfter    // error, and the monitor reports the failure shortly after the call returned
)

var OutcomeNames = []string{"ok", "err", "applied-err", "timeout", "err+mon-before", "err+mon-after"}

func (o Outcome) Fails() bool   { return o != OK }
func (o Outcome) Applies() bool { return o == OK || o == AppliedThenErr }

// Event is one entry of a fake's totally ordered applied log.
type Event struct {
	Kind string // "w" write, "s" snapshot
	ID   uint32
	Name string
}

// Call is one entry of a fake's call log.
type Call struct {
	Seq  int64
	Name string
	Conn int
}

// Fake is one scripted replica ("process" + persisted state).
type Fake struct {
	W    *World
	IP   string
	Addr string

	mu          sync.Mutex
	Alive       bool
	State       string // closed | open
	Mode        string // INIT | WO | RW (replica side)
	Size        int64
	Data        []byte
	Dirty       []bool // sectors written since attach (used by the harness-side "file sync")
	Log         []Event
	Chain       []string // head first
	headNo      int
	SnapData    map[string][]byte
	Checkpoint  string
	Rev         int64
	Rebuilding  bool
	CloneStatus string
	Calls       []Call
	UUID        string

	conn  *Conn // current attachment (nil if none)
	conns int

	// scripts
	Next     map[string]Outcome
	SnapFail bool
	RevFail  bool // next SetRevisionCounter fails
	// CloneScript: clone statuses reported by successive polls (the last one stays)
	CloneScript []string
	ClonePolls  int
	// FailNextMgmt: the next management call whose name starts with this string fails (admission steps of an add)
	FailNextMgmt string
	GetDelayMs   int32 // REST GET answered this late (atomic)
	DropDelete   int32 // DELETE /v1/delete: the process exits while it purges - the connection ends without an answer (atomic)
	Deleted      int32 // DELETE /v1/delete requests answered (atomic)
	CpFail       bool
	ResizeFail   bool
	Jitter       int // max per-call delay in 100us units (0 = none)

	Rejected     []uint32 // ids of writes this replica received but did not apply
	ReadsServed  int
	IOAfterClose []string
	SetCalls     []string // order of SetReplicaMode/SetRevisionCounter calls (promotion)

	lis net.Listener
	srv *http.Server
	// net mode: data listener and the most recently accepted data connection (the backend dials before it opens)
	dlis       net.Listener
	pendingTCP net.Conn
	PingHang   int32 // net mode: pings are left unanswered (atomic)
	// CutNextREST: net mode: the next POST of this action loses its connection before it is answered (not applied)
	CutNextREST string
}

// Conn is one attachment of a fake to the controller (what Factory.Create returns).
type Conn struct {
	F           *Fake
	ID          int
	closed      int32
	monitorChan types.MonitorChannel
	closeChan   chan struct{}
	inject      chan error
	StopCalls   int32
	ErrInjected int32
	Delivered   int32         // the one monitor event has been put on the channel
	hold        chan struct{} // if set, the monitor event is delivered only after this channel is closed
	// net mode: the attachment lives behind the real backend; tcp is its data connection
	net     bool
	tcp     net.Conn // guarded by F.mu
	wantTCP bool     // opened before its data connection was accepted
	dropped int32
}

const poison = 0xEE

func newFake(w *World, ip string, size int64, rev int64) *Fake {
	f := &Fake{W: w, IP: ip, Addr: "tcp://" + ip + ":9502", Alive: true, State: "closed", Mode: "INIT", Size: size,
		Data: make([]byte, size), Dirty: make([]bool, size/512), Chain: []string{"volume-head-000.img"}, SnapData: map[string][]byte{},
		Rev: rev, CloneStatus: "NA", Next: map[string]Outcome{}, UUID: "uuid-" + ip}
	return f
}

func (f *Fake) call(name string) {
	c := Call{Seq: atomic.AddInt64(&f.W.seq, 1), Name: name}
	if f.conn != nil {
		c.Conn = f.conn.ID
	}
	f.Calls = append(f.Calls, c)
}

func (f *Fake) jitter() {
	if f.Jitter > 0 {
		f.W.jmu.Lock()
		n := f.W.jit.Intn(f.Jitter + 1)
		f.W.jmu.Unlock()
		if n > 0 {
			time.Sleep(time.Duration(n) * 100 * time.Microsecond)
		}
	}
}

// take returns and clears the scripted outcome of the next call of kind k.
func (f *Fake) take(k string) Outcome {
	o := f.Next[k]
	delete(f.Next, k)
	return o
}

// ---------------------------------------------------------------- Conn: types.Backend

func (c *Conn) io(kind string, apply func()) error {
	f := c.F
	f.jitter()
	f.mu.Lock()
	if atomic.LoadInt32(&c.closed) != 0 {
		f.IOAfterClose = append(f.IOAfterClose, kind)
		f.call(kind + "(after-close)")
		f.mu.Unlock()
		return fmt.Errorf("connection closed")
	}
	f.call(kind)
	o := f.take(kind)
	if o.Applies() {
		apply()
	}
	f.mu.Unlock()
	if rv := f.W.rdv; rv != nil && kind != "read" {
		// all replicas of this operation answer at the same instant; the answer is prepared before the barrier so
		// that failing and succeeding replicas leave it with the same number of instructions ahead of them
		var ret error
		if o != OK {
			ret = fmt.Errorf("scripted %s error", kind)
		}
		rv.wait()
		if c.net && o != OK && o != ErrNotApplied {
			return c.netIO(kind, o)
		}
		return ret
	}
	if c.net {
		if o == DelayThenErr && f.W.lateBudget <= 0 {
			o = ErrNotApplied // a reply later than the rpc deadline costs seconds: only a few per history
		} else if o == DelayThenErr {
			f.W.lateBudget--
		}
		return c.netIO(kind, o)
	}
	switch o {
	case OK:
		return nil
	case DelayThenErr:
		time.Sleep(2 * time.Millisecond)
		return fmt.Errorf("r/w timeout")
	case ErrMonBefore:
		c.InjectMonitor(fmt.Errorf("ping failure"))
		// give the controller's monitoring goroutine the chance to queue behind the lock
		time.Sleep(300 * time.Microsecond)
		return fmt.Errorf("scripted %s error", kind)
	case ErrMonAfter:
		go func() {
			time.Sleep(500 * time.Microsecond)
			c.InjectMonitor(fmt.Errorf("ping failure"))
		}()
		return fmt.Errorf("scripted %s error", kind)
	}
	return fmt.Errorf("scripted %s error", kind)
}

func (c *Conn) WriteAt(buf []byte, off int64) (int, error) {
	f := c.F
	var wid uint32
	if len(buf) >= 8 {
		wid = uint32(binary.LittleEndian.Uint64(buf) >> 32)
	}
	defer func() {
		// remember which write a failing replica rejected (for ordering oracles)
		f.mu.Lock()
		if n := len(f.Log); n == 0 || !(f.Log[n-1].Kind == "w" && f.Log[n-1].ID == wid) {
			f.Rejected = append(f.Rejected, wid)
		}
		f.mu.Unlock()
	}()
	err := c.io("write", func() {
		copy(f.Data[off:], buf)
		for s := off / 512; s < (off+int64(len(buf)))/512; s++ {
			f.Dirty[s] = true
		}
		var id uint32
		if len(buf) >= 8 {
			id = uint32(binary.LittleEndian.Uint64(buf) >> 32)
		}
		f.Log = append(f.Log, Event{Kind: "w", ID: id})
		if f.Mode == "RW" {
			f.Rev++
		}
	})
	if err != nil {
		return 0, err
	}
	return len(buf), nil
}

func (c *Conn) ReadAt(buf []byte, off int64) (int, error) {
	f := c.F
	err := c.io("read", func() {
		copy(buf, f.Data[off:off+int64(len(buf))])
		f.ReadsServed++
	})
	if err != nil {
		return 0, err
	}
	return len(buf), nil
}

func (c *Conn) Sync() (int, error) {
	f := c.F
	if err := c.io("sync", func() { f.Log = append(f.Log, Event{Kind: "f"}) }); err != nil {
		return -1, err
	}
	return 0, nil
}

func (c *Conn) Unmap(off, length int64) (int, error) {
	f := c.F
	if err := c.io("unmap", func() { f.Log = append(f.Log, Event{Kind: "u"}) }); err != nil {
		return -1, err
	}
	return 0, nil
}

func (c *Conn) Close() error {
	c.F.mu.Lock()
	c.F.call("Close")
	c.F.mu.Unlock()
	c.StopMonitoring()
	atomic.StoreInt32(&c.closed, 1)
	return nil
}

func (c *Conn) mgmt(name string) error {
	f := c.F
	f.jitter()
	f.mu.Lock()
	defer f.mu.Unlock()
	f.call(name)
	if atomic.LoadInt32(&c.closed) != 0 {
		f.IOAfterClose = append(f.IOAfterClose, name)
		return fmt.Errorf("connection closed")
	}
	if f.FailNextMgmt != "" && strings.HasPrefix(name, f.FailNextMgmt) {
		f.FailNextMgmt = ""
		return fmt.Errorf("scripted %s failure", name)
	}
	return nil
}

func (c *Conn) Snapshot(name string, userCreated bool, created string) error {
	if err := c.mgmt("Snapshot"); err != nil {
		return err
	}
	f := c.F
	f.mu.Lock()
	defer f.mu.Unlock()
	if f.SnapFail {
		f.SnapFail = false
		return fmt.Errorf("scripted snapshot failure")
	}
	f.snapshotLocked(name)
	return nil
}

func (f *Fake) snapshotLocked(name string) {
	disk := "volume-snap-" + name + ".img"
	f.headNo++
	f.Chain = append([]string{fmt.Sprintf("volume-head-%03d.img", f.headNo), disk}, f.Chain[1:]...)
	f.SnapData[disk] = append([]byte(nil), f.Data...)
	f.Log = append(f.Log, Event{Kind: "s", Name: name})
}

func (c *Conn) GetReplicaChain() ([]string, error) {
	if err := c.mgmt("GetReplicaChain"); err != nil {
		return nil, err
	}
	c.F.mu.Lock()
	defer c.F.mu.Unlock()
	return append([]string(nil), c.F.Chain...), nil
}

func (c *Conn) SetCheckpoint(name string) error {
	if err := c.mgmt("SetCheckpoint"); err != nil {
		return err
	}
	f := c.F
	f.mu.Lock()
	defer f.mu.Unlock()
	if f.CpFail {
		f.CpFail = false
		return fmt.Errorf("scripted set-checkpoint failure")
	}
	f.Checkpoint = name
	return nil
}

func (c *Conn) Resize(name string, size string) error {
	if err := c.mgmt("Resize"); err != nil {
		return err
	}
	f := c.F
	f.mu.Lock()
	defer f.mu.Unlock()
	if f.ResizeFail {
		f.ResizeFail = false
		return fmt.Errorf("scripted resize failure")
	}
	// as replica.Server.Resize reads it
	n, err := units.RAMInBytes(size)
	if err != nil {
		return err
	}
	if n < f.Size {
		return fmt.Errorf("Previous size %d is greater than %d", f.Size, n)
	}
	f.Data = append(f.Data, make([]byte, n-f.Size)...)
	f.Dirty = append(f.Dirty, make([]bool, (n-f.Size)/512)...)
	for k, v := range f.SnapData {
		f.SnapData[k] = append(v, make([]byte, n-int64(len(v)))...)
	}
	f.Size = n
	return nil
}

func (c *Conn) Size() (int64, error) {
	if err := c.mgmt("Size"); err != nil {
		return 0, err
	}
	return c.F.Size, nil
}
func (c *Conn) SectorSize() (int64, error) { return 4096, c.mgmt("SectorSize") }
func (c *Conn) RemainSnapshots() (int, error) {
	return 500, c.mgmt("RemainSnapshots")
}
func (c *Conn) GetRevisionCounter() (int64, error) {
	if err := c.mgmt("GetRevisionCounter"); err != nil {
		return 0, err
	}
	c.F.mu.Lock()
	defer c.F.mu.Unlock()
	return c.F.Rev, nil
}
func (c *Conn) GetCloneStatus() (string, error) {
	if err := c.mgmt("GetCloneStatus"); err != nil {
		return "", err
	}
	f := c.F
	f.mu.Lock()
	defer f.mu.Unlock()
	if len(f.CloneScript) > 0 {
		// a clone in progress: the status the replica reports changes from poll to poll
		f.CloneStatus = f.CloneScript[0]
		f.CloneScript = f.CloneScript[1:]
		f.ClonePolls++
		f.SetCalls = append(f.SetCalls, "clonestatus="+f.CloneStatus)
	}
	return f.CloneStatus, nil
}
func (c *Conn) GetVolUsage() (types.VolUsage, error) {
	return types.VolUsage{RevisionCounter: c.F.Rev, SectorSize: 4096}, c.mgmt("GetVolUsage")
}
func (c *Conn) SetReplicaMode(mode types.Mode) error {
	if err := c.mgmt("SetReplicaMode(" + string(mode) + ")"); err != nil {
		return err
	}
	f := c.F
	f.mu.Lock()
	defer f.mu.Unlock()
	if mode != types.RW && mode != types.WO {
		return fmt.Errorf("invalid mode string %v", mode)
	}
	f.Mode = string(mode)
	f.SetCalls = append(f.SetCalls, "mode="+string(mode))
	return nil
}
func (c *Conn) SetRevisionCounter(counter int64) error {
	if err := c.mgmt("SetRevisionCounter"); err != nil {
		return err
	}
	f := c.F
	f.mu.Lock()
	defer f.mu.Unlock()
	if f.RevFail {
		f.RevFail = false
		return fmt.Errorf("scripted set-revision-counter failure")
	}
	if f.Mode != "RW" {
		return fmt.Errorf("setting revisioncounter during %v mode is invalid", f.Mode)
	}
	f.Rev = counter
	f.SetCalls = append(f.SetCalls, fmt.Sprintf("rev=%d", counter))
	return nil
}
func (c *Conn) SetRebuilding(rebuilding bool) error {
	if err := c.mgmt("SetRebuilding"); err != nil {
		return err
	}
	c.F.Rebuilding = rebuilding
	return nil
}
func (c *Conn) GetMonitorChannel() types.MonitorChannel { return c.monitorChan }

// StopMonitoring mirrors remote.Remote: a token on closeChan, which the
// monitor goroutine turns into the single nil on the monitor channel.
func (c *Conn) StopMonitoring() {
	atomic.AddInt32(&c.StopCalls, 1)
	select {
	case c.closeChan <- struct{}{}:
	default:
		c.F.W.note("closeChan of " + c.F.Addr + " full (more than 5 StopMonitoring calls)")
	}
}

// InjectMonitor makes the monitor report a failure (ping timeout, connection loss).
func (c *Conn) InjectMonitor(err error) {
	atomic.StoreInt32(&c.ErrInjected, 1)
	if c.net {
		c.drop() // what the controller can notice of a failing replica: its data connection is gone
		return
	}
	select {
	case c.inject <- err:
	default:
	}
}

// monitor reproduces remote.monitorPing: exactly one value is ever sent.
func (c *Conn) monitor() {
	var ev error
	select {
	case <-c.closeChan:
	case ev = <-c.inject:
	}
	if c.hold != nil {
		<-c.hold // the event of this attachment reaches the controller late (e.g. the rpc client's 2 s grace)
		if ev == nil {
			ev = fmt.Errorf("r/w timeout")
		}
	}
	c.monitorChan <- ev
	atomic.StoreInt32(&c.Delivered, 1)
}

// Signalled tells whether this attachment's monitor has been told to fire.
func (c *Conn) Signalled() bool {
	return atomic.LoadInt32(&c.StopCalls) > 0 || atomic.LoadInt32(&c.ErrInjected) > 0 || atomic.LoadInt32(&c.dropped) > 0
}

// ---------------------------------------------------------------- factory

type Signal struct {
	Seq    int64
	Target string
	Action string
	Err    string
}

type Factory struct {
	W         *World
	mu        sync.Mutex
	Signals   []Signal
	SignalErr map[string]bool // target ip -> fail the next signal
	Creates   []string
	Alive     []string // VerifyReplicaAlive calls
	// CreateDelay stretches Create so that concurrent add requests overlap
	CreateDelay time.Duration
}

func (fa *Factory) Create(address string) (types.Backend, error) {
	fa.mu.Lock()
	fa.Creates = append(fa.Creates, address)
	d := fa.CreateDelay
	fa.mu.Unlock()
	if d > 0 {
		time.Sleep(d) // connecting and opening a replica takes a while; concurrent requests overlap here
	}
	f := fa.W.Fakes[address]
	if f == nil {
		return nil, fmt.Errorf("dial %s: connection refused", address)
	}
	f.mu.Lock()
	defer f.mu.Unlock()
	f.call("Create")
	if !f.Alive {
		return nil, fmt.Errorf("dial %s: connection refused", address)
	}
	if f.State != "closed" {
		return nil, fmt.Errorf("Replica must be closed, Can not add in state: %s", f.State)
	}
	f.State = "open"
	f.Mode = "INIT"
	f.conns++
	c := &Conn{F: f, ID: f.conns, monitorChan: make(types.MonitorChannel, 5), closeChan: make(chan struct{}, 5), inject: make(chan error, 1)}
	f.conn = c
	for i := range f.Dirty {
		f.Dirty[i] = false
	}
	go c.monitor()
	return c, nil
}

func (fa *Factory) SignalToAdd(address string, action string) error {
	fa.mu.Lock()
	defer fa.mu.Unlock()
	s := Signal{Seq: atomic.AddInt64(&fa.W.seq, 1), Target: address, Action: action}
	var err error
	f := fa.W.Fakes["tcp://"+address+":9502"]
	if fa.SignalErr[address] {
		delete(fa.SignalErr, address)
		err = fmt.Errorf("scripted signal failure")
	} else if f == nil || !f.Alive {
		err = fmt.Errorf("connection refused")
	}
	if err != nil {
		s.Err = err.Error()
	}
	fa.Signals = append(fa.Signals, s)
	return err
}

func (fa *Factory) VerifyReplicaAlive(address string) bool {
	fa.mu.Lock()
	fa.Alive = append(fa.Alive, address)
	fa.mu.Unlock()
	f := fa.W.Fakes["tcp://"+address+":9502"]
	return f != nil && f.Alive
}

// ---------------------------------------------------------------- frontend

type Frontend struct {
	mu       sync.Mutex
	state    types.State
	Startups int
	Size     int64
	Resizes  []uint64
	FailNext bool
}

func (fr *Frontend) Startup(name, frontendIP, clusterIP string, size, sectorSize int64, rw types.IOs) error {
	fr.mu.Lock()
	defer fr.mu.Unlock()
	fr.state = types.StateUp
	fr.Startups++
	fr.Size = size
	return nil
}
func (fr *Frontend) Shutdown() error {
	fr.mu.Lock()
	defer fr.mu.Unlock()
	fr.state = types.StateDown
	return nil
}
func (fr *Frontend) State() types.State {
	fr.mu.Lock()
	defer fr.mu.Unlock()
	if fr.state == "" {
		return types.StateDown
	}
	return fr.state
}
func (fr *Frontend) Stats() types.Stats { return types.Stats{} }
func (fr *Frontend) Resize(n uint64) error {
	fr.mu.Lock()
	defer fr.mu.Unlock()
	fr.Resizes = append(fr.Resizes, n)
	fr.Size = int64(n)
	return nil
}

// ---------------------------------------------------------------- HTTP stub of a replica's REST API

func (f *Fake) startHTTP() error {
	l, err := net.Listen("tcp", f.IP+":9502")
	if err != nil {
		return err
	}
	f.lis = l
	mux := http.NewServeMux()
	mux.HandleFunc("/ping", func(w http.ResponseWriter, r *http.Request) {
		if r.Method != "GET" {
			w.WriteHeader(405) // the replica's router offers /ping for GET only
			return
		}
		f.mu.Lock()
		alive := f.Alive
		f.mu.Unlock()
		if !alive {
			if hj, ok := w.(http.Hijacker); ok {
				if c, _, err := hj.Hijack(); err == nil {
					c.Close()
					return
				}
			}
			w.WriteHeader(503)
			return
		}
		w.Write([]byte("pong"))
	})
	mux.HandleFunc("/v1/replicas/1", f.handleReplica)
	// the volume-delete request (controller: POST /v1/delete -> per replica GET /v1/replicas/1, DELETE /v1/delete). A real
	// replica purges its directory and its process ends when the controller drops the data connection of the closed
	// replica: the DELETE request can end without an answer although the GET before it was answered.
	mux.HandleFunc("/v1/delete", func(w http.ResponseWriter, r *http.Request) {
		if r.Method != "DELETE" {
			w.WriteHeader(405)
			return
		}
		f.mu.Lock()
		alive := f.Alive
		f.call("REST:delete")
		f.mu.Unlock()
		if !alive || atomic.LoadInt32(&f.DropDelete) > 0 {
			if hj, ok := w.(http.Hijacker); ok {
				if c, _, err := hj.Hijack(); err == nil {
					c.Close()
					return
				}
			}
			w.WriteHeader(503)
			return
		}
		atomic.AddInt32(&f.Deleted, 1)
		w.Write([]byte("{}"))
	})
	f.srv = &http.Server{Handler: mux}
	go f.srv.Serve(l)
	return nil
}

func (f *Fake) stopHTTP() {
	if f.srv != nil {
		f.srv.Close()
	}
}

func (f *Fake) infoLocked() rest.Replica {
	base := "http://" + f.IP + ":9502/v1/replicas/1"
	r := rest.Replica{Resource: rclient.Resource{Id: "1", Type: "replica", Actions: map[string]string{}, Links: map[string]string{"self": base}}}
	for _, a := range []string{"revert", "prepareremovedisk", "removedisk", "setrebuilding", "close", "open", "reload", "snapshot"} {
		r.Actions[a] = base + "?action=" + a
	}
	st := f.State
	if st == "open" && f.Rebuilding {
		st = "rebuilding"
	}
	r.State = st
	r.Rebuilding = f.Rebuilding
	r.Head = f.Chain[0]
	if len(f.Chain) > 1 {
		r.Parent = f.Chain[1]
	}
	r.Size = strconv.FormatInt(f.Size, 10)
	r.SectorSize = 4096
	r.Chain = append([]string(nil), f.Chain...)
	r.Disks = map[string]types.DiskInfo{}
	for i, n := range f.Chain {
		d := types.DiskInfo{Name: n}
		if i+1 < len(f.Chain) {
			d.Parent = f.Chain[i+1]
		}
		r.Disks[n] = d
	}
	r.RemainSnapshots = 500
	r.ReplicaMode = f.Mode
	r.RevisionCounter = strconv.FormatInt(f.Rev, 10)
	r.CloneStatus = f.CloneStatus
	r.Checkpoint = f.Checkpoint
	return r
}

func (f *Fake) handleReplica(w http.ResponseWriter, r *http.Request) {
	if d := atomic.LoadInt32(&f.GetDelayMs); d > 0 && r.Method == "GET" {
		time.Sleep(time.Duration(d) * time.Millisecond)
	}
	if f.W.Net && r.Method == "POST" && netActions[r.URL.Query().Get("action")] {
		f.mu.Lock()
		alive := f.Alive
		f.mu.Unlock()
		if alive {
			f.netAction(w, r, r.URL.Query().Get("action"))
			return
		}
	}
	f.mu.Lock()
	defer f.mu.Unlock()
	if !f.Alive {
		// a dead process does not answer; closest we can do on an open listener
		hj, ok := w.(http.Hijacker)
		if ok {
			c, _, _ := hj.Hijack()
			c.Close()
			return
		}
		w.WriteHeader(503)
		return
	}
	action := r.URL.Query().Get("action")
	if r.Method == "GET" {
		f.call("REST:GET")
		json.NewEncoder(w).Encode(f.infoLocked())
		return
	}
	f.call("REST:" + action)
	switch action {
	case "revert":
		var in rest.RevertInput
		json.NewDecoder(r.Body).Decode(&in)
		if f.SnapFail { // reused as "fail the next chain operation"
			f.SnapFail = false
			http.Error(w, `{"type":"error","message":"scripted revert failure"}`, 500)
			return
		}
		idx := -1
		for i, n := range f.Chain {
			if n == in.Name && i > 0 {
				idx = i
			}
		}
		if idx < 0 {
			http.Error(w, `{"type":"error","message":"no such snapshot"}`, 500)
			return
		}
		f.headNo++
		f.Chain = append([]string{fmt.Sprintf("volume-head-%03d.img", f.headNo)}, f.Chain[idx:]...)
		f.Data = append([]byte(nil), f.SnapData[in.Name]...)
		f.Log = append(f.Log, Event{Kind: "r", Name: in.Name})
		json.NewEncoder(w).Encode(f.infoLocked())
	case "prepareremovedisk":
		var in rest.PrepareRemoveDiskInput
		json.NewDecoder(r.Body).Decode(&in)
		f.Log = append(f.Log, Event{Kind: "d", Name: in.Name})
		json.NewEncoder(w).Encode(rest.PrepareRemoveDiskOutput{Resource: rclient.Resource{Id: in.Name, Type: "prepareRemoveDiskOutput"}})
	default:
		if strings.HasPrefix(action, "set") {
			json.NewEncoder(w).Encode(f.infoLocked())
			return
		}
		w.WriteHeader(404)
	}
}

// rendezvous makes the replicas' answers to one fanned-out operation land
// together: each arrival spins until all n have arrived (or 20 ms passed).
type rendezvous struct {
	n       int32
	arrived int32
}

func (r *rendezvous) wait() {
	atomic.AddInt32(&r.arrived, 1)
	end := time.Now().Add(20 * time.Millisecond)
	for atomic.LoadInt32(&r.arrived) < r.n {
		if time.Now().After(end) {
			return
		}
	}
}
