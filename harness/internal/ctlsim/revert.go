package ctlsim

import (
	"fmt"
	"strings"

	"github.com/openebs/jiva/types"
)

// snapModel is the model image of the volume at the moment a snapshot was accepted.
type snapModel struct {
	acked []uint32
	maybe map[int64][]uint32
}

func (w *World) saveSnapModel(disk string) {
	if w.snapModels == nil {
		w.snapModels = map[string]*snapModel{}
	}
	m := &snapModel{acked: append([]uint32(nil), w.Acked...), maybe: map[int64][]uint32{}}
	for k, v := range w.Maybe {
		m.maybe[k] = append([]uint32(nil), v...)
	}
	w.snapModels[disk] = m
}

// RevertOp is Controller.Revert to a snapshot whose model image is known (C06, controller side: "reverting the
// volume to such a snapshot makes the volume read back exactly that image"). refusing, if set, answers the revert
// request with an error status (a leftover of an earlier attempt that cannot be removed, a full disk): it keeps its
// old head, so it must not serve a single read afterwards. After an accepted revert the volume is read in full once
// per reader position and compared with the model image of the snapshot.
func (w *World) RevertOp(disk string, refusing *Fake) error {
	m := w.snapModels[disk]
	if w.Dead || m == nil {
		return nil
	}
	note := "all replicas comply"
	if refusing != nil {
		note = refusing.Addr + " answers 500"
		refusing.mu.Lock()
		refusing.SnapFail = true
		refusing.mu.Unlock()
	}
	s := w.rec(Step{K: "revert", Addr: disk, Note: note})
	pre := w.C.VerifState()
	// the controller takes the user's name of the snapshot and derives the file name from it
	err := w.C.Revert(strings.TrimSuffix(strings.TrimPrefix(disk, "volume-snap-"), ".img"))
	if refusing != nil {
		refusing.mu.Lock()
		refusing.SnapFail = false
		refusing.mu.Unlock()
	}
	w.Res.Count("controller_reverts", 1)
	if err != nil {
		s.Res = err.Error()
		if refusing == nil || modeCount(pre, types.RW) > 1 {
			w.Fail("C06", "revert:refused-although-a-replica-could", fmt.Sprintf("Controller.Revert(%s) returned %v (%s); before: %s", disk, err, note, digest(pre, true)))
		}
		w.Dead = true // every replica refused: the volume is gone, as it should be
		return err
	}
	// the model is the snapshot's image from here on
	w.Acked = append([]uint32(nil), m.acked...)
	for int64(len(w.Acked)) < w.Size/512 {
		w.Acked = append(w.Acked, 0)
	}
	w.Maybe = map[int64][]uint32{}
	for k, v := range m.maybe {
		w.Maybe[k] = append([]uint32(nil), v...)
	}
	if refusing != nil {
		w.Res.Count("controller_reverts_with_a_refusing_replica", 1)
		for _, r := range w.C.VerifState().Replicas {
			if r.Address == refusing.Addr && r.Mode == types.RW {
				w.Fail("C06", "revert:replica-that-refused-stays-RW", fmt.Sprintf("%s refused the revert to %s (it keeps its old head) but is listed RW when Revert returns: %s", r.Address, disk, w.Describe()))
				return nil
			}
		}
	}
	st := w.C.VerifState()
	buf := make([]byte, w.Size)
	for i := 0; i < len(st.Readers)+1; i++ {
		n, rerr := w.C.ReadAt(buf, 0)
		if rerr != nil || int64(n) != w.Size {
			if modeCount(st, types.RW) > 0 {
				w.Fail("C06", "revert:volume-unreadable-after-revert", fmt.Sprintf("read %d of the whole volume after the revert to %s: n=%d err=%v; %s", i, disk, n, rerr, w.Describe()))
			}
			return nil
		}
		w.Res.Count("full_reads_after_revert", 1)
		if msg := w.checkData(buf, 0); msg != "" {
			w.Fail("C06", "revert:volume-differs-from-snapshot-image", fmt.Sprintf("full read %d after Controller.Revert(%s) (%s): %s; %s", i, disk, note, msg, w.Describe()))
			return nil
		}
	}
	return nil
}

// RunRevert: writes, user snapshots, more writes (so that the head differs from every snapshot), then a revert
// through the controller - in two thirds of the cases with one replica refusing it - full reads, more writes and
// reads on the reverted volume, and a second revert to an older or the same snapshot.
func RunRevert(w *World, idx int) {
	r := w.R
	w.Cfg = map[string]interface{}{"rf": w.RF, "scenario": "revert"}
	if !w.BringUp(w.RF, false) {
		return
	}
	var snaps []string
	write := func(n int) {
		for i := 0; i < n && !w.Dead; i++ {
			o, l := w.RandRange()
			w.IO("write", o, l, nil)
		}
	}
	for k := 0; k < r.Range(1, 3) && !w.Dead; k++ {
		write(r.Range(3, 12))
		name := fmt.Sprintf("u%d", k)
		if _, err := w.SnapshotOp(name, "before revert", nil, nil); err != nil || w.Dead {
			return
		}
		disk := "volume-snap-" + name + ".img"
		w.saveSnapModel(disk)
		snaps = append(snaps, disk)
		w.CheckSettled("snapshot")
	}
	for round := 0; round < 2 && !w.Dead; round++ {
		write(r.Range(4, 14))
		w.CheckSettled("write")
		fs, modes := w.Attached()
		var refusing *Fake
		if len(fs) > 1 && (idx+round)%3 != 0 {
			if f := fs[r.Intn(len(fs))]; modes[f] == types.RW {
				refusing = f
			}
		}
		disk := snaps[r.Intn(len(snaps))]
		if round == 1 {
			// only snapshots at or below the one reverted to are left in the chain
			disk = snaps[0]
		}
		if w.RevertOp(disk, refusing) != nil || w.Dead {
			return
		}
		snaps = snaps[:1]
		w.NonTrivial = true
		w.CheckSettled("revert")
		w.readSweep()
		w.CheckImages()
		if st := w.C.VerifState(); st.ReadOnly || modeCount(st, types.RW) == 0 {
			return
		}
	}
}
