package ctlsim

import (
	"encoding/binary"
	"fmt"
	"sync"
	"sync/atomic"
	"time"

	"github.com/anishathalye/porcupine"
	"github.com/openebs/jiva/types"

	"verif/harness/internal/reng"
	"verif/harness/internal/vk"
)

var reng_FillSector = reng.FillSector

type regIn struct {
	Block int
	Write bool
	Val   uint64
}

// RunConcurrent drives one controller from several client goroutines (block
// reads and writes with unique values, replicas answering with seeded delays,
// a replica failing in the middle) and checks the recorded history for
// linearizability against a register-per-block model. Failed writes stay open
// to the end of the history (they may have taken effect).
func RunConcurrent(w *World, idx int) {
	r := w.R
	quorum := w.RF/2 + 1
	nRW := r.Range(quorum, w.RF)
	w.Cfg = map[string]interface{}{"rf": w.RF, "rw": nRW, "scenario": "concurrent-clients"}
	if !w.BringUp(nRW, false) {
		return
	}
	for _, f := range w.Order {
		f.Jitter = r.Range(0, 6)
	}
	nblocks := r.Range(2, 5)
	K := r.Range(2, 8)
	per := 600 / K
	var mu sync.Mutex
	var ops []porcupine.Operation
	var next uint64 = 1
	t0 := time.Now()
	var wg sync.WaitGroup
	// one replica fails half way (its next write errors), exercising detach under concurrency
	var victim *Fake
	if fs, _ := w.Attached(); len(fs) > quorum && r.Chance(60) {
		victim = fs[r.Intn(len(fs))]
	}
	var done int64
	for g := 0; g < K; g++ {
		wg.Add(1)
		seed := r.U64()
		go func(g int) {
			defer wg.Done()
			rr := vk.NewRand(seed)
			for i := 0; i < per; i++ {
				if victim != nil && atomic.AddInt64(&done, 1) == int64(K*per/2) {
					victim.mu.Lock()
					victim.Next["write"] = ErrNotApplied
					victim.mu.Unlock()
				}
				blk := rr.Intn(nblocks)
				buf := make([]byte, 4096)
				if rr.Chance(50) {
					v := atomic.AddUint64(&next, 1)
					for k := 0; k < 4096; k += 8 {
						binary.LittleEndian.PutUint64(buf[k:], v)
					}
					call := time.Since(t0).Nanoseconds()
					n, err := w.C.WriteAt(buf, int64(blk)*4096)
					ret := time.Since(t0).Nanoseconds()
					if err != nil || n != 4096 {
						ret = int64(1) << 60 // may or may not have taken effect: keep it open
					}
					mu.Lock()
					ops = append(ops, porcupine.Operation{ClientId: g, Input: regIn{blk, true, v}, Call: call, Output: uint64(0), Return: ret})
					mu.Unlock()
				} else {
					call := time.Since(t0).Nanoseconds()
					n, err := w.C.ReadAt(buf, int64(blk)*4096)
					ret := time.Since(t0).Nanoseconds()
					if err != nil || n != 4096 {
						continue // a failed read observed nothing
					}
					v := binary.LittleEndian.Uint64(buf)
					for k := 8; k < 4096; k += 8 {
						if binary.LittleEndian.Uint64(buf[k:]) != v {
							v = ^uint64(0)
						}
					}
					mu.Lock()
					ops = append(ops, porcupine.Operation{ClientId: g, Input: regIn{blk, false, 0}, Call: call, Output: v, Return: ret})
					mu.Unlock()
				}
			}
		}(g)
	}
	wg.Wait()
	for _, f := range w.Order {
		f.Jitter = 0
	}
	model := porcupine.Model{
		Partition: func(h []porcupine.Operation) [][]porcupine.Operation {
			m := map[int][]porcupine.Operation{}
			for _, o := range h {
				b := o.Input.(regIn).Block
				m[b] = append(m[b], o)
			}
			var out [][]porcupine.Operation
			for _, v := range m {
				out = append(out, v)
			}
			return out
		},
		Init: func() interface{} { return uint64(0) },
		Step: func(st, in, out interface{}) (bool, interface{}) {
			i := in.(regIn)
			if i.Write {
				return true, i.Val
			}
			return out.(uint64) == st.(uint64), st
		},
	}
	res, _ := porcupine.CheckOperationsVerbose(model, ops, 2*time.Minute)
	w.Res.Count("concurrent_histories", 1)
	w.Res.Count("concurrent_history_operations", int64(len(ops)))
	w.NonTrivial = true
	w.rec(Step{K: "concurrent-clients", Note: fmt.Sprintf("%d goroutines, %d blocks, %d operations, failing replica: %v", K, nblocks, len(ops), victim != nil)})
	switch res {
	case porcupine.Illegal:
		w.FailAny([]string{"C02", "C04"}, "concurrent-history-not-linearizable", fmt.Sprintf("history of %d block reads/writes by %d concurrent clients through the controller (RF %d, %d RW) is not linearizable: a read returned a value that no acknowledged order of the writes explains", len(ops), K, w.RF, nRW))
	case porcupine.Unknown:
		w.Res.Inconclusive = append(w.Res.Inconclusive, "porcupine timed out on a controller history")
	default:
		w.Res.Count("concurrent_histories_linearizable", 1)
	}
	// the concurrent values are not stamps of the sector model
	for i := range w.Acked {
		w.Acked[i] = 0
	}
	w.Dead = w.Dead || false
	_ = types.RW
	w.CheckSettled("concurrent-clients")
}

// RunQuorumLossRace: the volume is exactly at quorum, several clients write
// concurrently, one replica rejects the first write that reaches it. Once that
// write has returned the volume is read-only; a write that was already queued
// behind it must be refused without touching any replica (C03).
func RunQuorumLossRace(w *World, idx int) {
	r := w.R
	quorum := w.RF/2 + 1
	w.Cfg = map[string]interface{}{"rf": w.RF, "rw": quorum, "scenario": "quorum-loss-under-concurrent-writers"}
	if !w.BringUp(quorum, false) {
		return
	}
	fs, _ := w.Attached()
	if len(fs) != quorum {
		return
	}
	victim := fs[r.Intn(len(fs))]
	for _, f := range w.Order {
		f.Jitter = r.Range(2, 10)
	}
	victim.mu.Lock()
	victim.Next["write"] = ErrNotApplied
	victim.mu.Unlock()
	K := r.Range(3, 8)
	var wg sync.WaitGroup
	base := w.NextWID
	w.NextWID += uint32(K * 10)
	acked := make([]int32, K*10)
	for g := 0; g < K; g++ {
		wg.Add(1)
		go func(g int) {
			defer wg.Done()
			for i := 0; i < 2; i++ {
				id := base + uint32(g*10+i)
				off := int64((g*2+i)%int(w.Size/4096)) * 4096
				buf := make([]byte, 512)
				binary.LittleEndian.PutUint64(buf, uint64(id)<<32)
				if n, err := w.C.WriteAt(buf, off); err == nil && n == len(buf) {
					atomic.StoreInt32(&acked[id-base], 1)
				}
			}
		}(g)
	}
	wg.Wait()
	for _, f := range w.Order {
		f.Jitter = 0
	}
	w.NonTrivial = true
	w.Res.Count("quorum_loss_races", 1)
	victim.mu.Lock()
	rej := append([]uint32(nil), victim.Rejected...)
	victim.mu.Unlock()
	w.rec(Step{K: "quorum-loss-race", Addr: victim.Addr, Note: fmt.Sprintf("%d clients, rejected write ids %v", K, rej)})
	if len(rej) == 0 {
		return
	}
	w1 := rej[0]
	// after w1 returned the volume is below quorum: nothing may reach a replica after w1
	for _, f := range w.Order {
		if f == victim {
			continue
		}
		f.mu.Lock()
		pos := -1
		var later []uint32
		for i, e := range f.Log {
			if e.Kind == "w" && e.ID == w1 {
				pos = i
			} else if pos >= 0 && e.Kind == "w" {
				later = append(later, e.ID)
			}
		}
		f.mu.Unlock()
		if pos >= 0 && len(later) > 0 {
			ack := false
			for _, id := range later {
				if id >= base && int(id-base) < len(acked) && atomic.LoadInt32(&acked[id-base]) == 1 {
					ack = true
				}
			}
			w.Fail("C03", fmt.Sprintf("write-reached-replica-after-quorum-loss:acknowledged=%v", ack), fmt.Sprintf("RF=%d with exactly %d RW replicas: write#%d was rejected by %s (quorum lost when it returned), yet writes %v reached %s after it (acknowledged: %v)", w.RF, quorum, w1, victim.Addr, later, f.Addr, ack))
			return
		}
	}
	for i := range w.Acked {
		w.Acked[i] = 0
	}
	w.CheckSettled("quorum-loss-race")
}

// RunAddUnderLoad: a writer keeps writing while a replica is added (its own
// snapshot call is slow), then the rebuild completes; every attached replica
// must hold every acknowledged write (C02's consequence clause).
func RunAddUnderLoad(w *World, idx int) {
	r := w.R
	quorum := w.RF/2 + 1
	if w.RF < 2 {
		RunIO(w, idx)
		return
	}
	nRW := r.Range(quorum, w.RF-1)
	w.Cfg = map[string]interface{}{"rf": w.RF, "rw": nRW, "scenario": "add-under-write-load"}
	if !w.BringUp(nRW, false) {
		return
	}
	if st := w.C.VerifState(); st.ReadOnly {
		return
	}
	nf := w.NewFake(1)
	w.poisonFake(nf)
	nf.Jitter = r.Range(10, 40) // the joining replica is slow (it opens files, cuts a snapshot)
	stop := make(chan struct{})
	var wg sync.WaitGroup
	wg.Add(1)
	var mu sync.Mutex
	type rec struct {
		off, l int64
		wid    uint32
		ack    bool
	}
	var recs []rec
	base := w.NextWID
	w.NextWID += 5000
	wseed := r.U64() // drawn here: the generator is not shared with the writer goroutine
	go func() {
		defer wg.Done()
		rr := vk.NewRand(wseed)
		id := base
		for {
			select {
			case <-stop:
				return
			default:
			}
			secs := int(w.Size / 512)
			o := int64(rr.Intn(secs-8)) * 512
			l := int64(rr.Range(1, 8)) * 512
			buf := make([]byte, l)
			for s := int64(0); s < l/512; s++ {
				reng_FillSector(buf[s*512:], id, uint32(o/512+s))
			}
			n, err := w.C.WriteAt(buf, o)
			mu.Lock()
			recs = append(recs, rec{o, l, id, err == nil && int64(n) == l})
			mu.Unlock()
			id++
			if id >= base+4900 {
				return
			}
		}
	}()
	time.Sleep(time.Duration(r.Range(0, 3)) * time.Millisecond)
	w.rec(Step{K: "add-under-load", Addr: nf.Addr})
	err := w.C.AddReplica(nf.Addr)
	time.Sleep(time.Duration(r.Range(0, 3)) * time.Millisecond)
	close(stop)
	wg.Wait()
	nf.Jitter = 0
	w.NonTrivial = true
	w.Res.Count("adds_under_write_load", 1)
	// bring the model up to date (the writer was sequential, so order = issue order)
	for _, x := range recs {
		for s := x.off / 512; s < (x.off+x.l)/512; s++ {
			if x.ack {
				w.Acked[s] = x.wid
				delete(w.Maybe, s)
			} else {
				w.Maybe[s] = append(w.Maybe[s], x.wid)
			}
		}
		if x.ack {
			w.AckLog = append(w.AckLog, x.wid)
		}
	}
	w.Res.Count("io_write", int64(len(recs)))
	// which of these writes the new replica had to receive itself is not known (it joined somewhere in between);
	// what it must hold is decided on its data after the sync
	w.noteAttach()
	if err != nil {
		return
	}
	w.CheckSettled("add-under-load")
	if w.Dead {
		return
	}
	if w.SyncFrom(nf) {
		if err := w.Verify(nf); err != nil {
			w.Fail("C18", "verify-refused", err.Error())
			return
		}
		w.CheckSettled("verify")
		w.CheckImages()
		if !w.Dead {
			w.readSweep()
			st := w.C.VerifState()
			for i := 0; i < len(st.Readers) && !w.Dead; i++ {
				w.IO("read", 0, w.Size, nil)
			}
		}
	}
}

// RunRendezvous: the replicas' answers to one write / flush / unmap arrive at the
// same instant (the fakes spin on a barrier before returning), some failing and
// some succeeding - the window in which the fan-out code collects per-replica
// results concurrently. Per operation the usual clauses apply (acknowledged
// only with a majority, failed replicas detached, healthy ones kept, a failing
// minority does not surface); detached replicas are replaced and the next
// trial follows.
func RunRendezvous(w *World, idx int) {
	r := w.R
	if w.RF < 2 {
		RunIO(w, idx)
		return
	}
	w.Cfg = map[string]interface{}{"rf": w.RF, "scenario": "rendezvous"}
	if !w.BringUp(w.RF, false) {
		return
	}
	trials := r.Range(30, 80)
	for t := 0; t < trials && !w.Dead; t++ {
		fs, modes := w.Attached()
		var rw []*Fake
		for _, f := range fs {
			if modes[f] == types.RW {
				rw = append(rw, f)
			}
		}
		if len(rw) < w.RF {
			if len(rw) == 0 {
				break
			}
			if modeCount(w.C.VerifState(), types.WO) == 0 {
				if !w.AddSynced(w.NewFake(1)) {
					break
				}
			} else {
				break
			}
			continue
		}
		// a failing subset that leaves at least one replica succeeding
		faults := map[*Fake]Outcome{}
		nf := r.Range(1, len(fs)-1)
		for len(faults) < nf {
			faults[fs[r.Intn(len(fs))]] = ErrNotApplied
		}
		kind := []string{"write", "write", "write", "sync", "unmap"}[r.Intn(5)]
		o, l := w.RandRange()
		w.rdv = &rendezvous{n: int32(len(fs))}
		w.IO(kind, o, l, faults)
		w.rdv = nil
		w.Res.Count("rendezvous_operations", 1)
		w.CheckSettled("rendezvous-" + kind)
		if w.Dead {
			return
		}
		if st := w.C.VerifState(); st.ReadOnly {
			// below quorum: bring replacements until writes are possible again
			for k := 0; k < w.RF && !w.Dead; k++ {
				st = w.C.VerifState()
				if modeCount(st, types.RW) == 0 || modeCount(st, types.RW) >= w.RF {
					break
				}
				if !w.AddSynced(w.NewFake(1)) {
					break
				}
			}
		}
	}
	w.CheckImages()
}

// RunStaleMonitor: a replica fails an I/O and is detached, its process restarts
// at once and is re-added and rebuilt at the same address - and only then the
// monitor event of its *previous* attachment reaches the controller (the rpc
// client reports a timed-out connection two seconds after the request failed).
// That late event concerns an attachment that is gone: the new, healthy
// attachment must stay.
func RunStaleMonitor(w *World, idx int) {
	if w.RF < 2 || w.Net {
		RunIO(w, idx)
		return
	}
	r := w.R
	w.Cfg = map[string]interface{}{"rf": w.RF, "scenario": "stale-monitor-event"}
	if !w.BringUp(w.RF, false) {
		return
	}
	w.NonTrivial = true
	for round := 0; round < 3 && !w.Dead; round++ {
		fs, modes := w.Attached()
		if len(fs) < 2 {
			return
		}
		f := fs[r.Intn(len(fs))]
		if modes[f] != types.RW {
			continue
		}
		f.mu.Lock()
		old := f.conn
		f.mu.Unlock()
		if old == nil {
			return
		}
		release := make(chan struct{})
		old.hold = release
		// f fails a write: detached at once by the I/O path
		o, l := w.RandRange()
		w.IO("write", o, l, map[*Fake]Outcome{f: ErrNotApplied})
		if w.Dead {
			close(release)
			return
		}
		// the process is back immediately; same address, new attachment, rebuilt
		w.rec(Step{K: "restart", Addr: f.Addr, Note: "before the monitor event of its previous attachment was delivered"})
		f.mu.Lock()
		f.Alive, f.State, f.Mode, f.conn, f.Rebuilding = true, "closed", "INIT", nil, false
		f.mu.Unlock()
		if !w.AddSynced(f) {
			close(release)
			return
		}
		// now the old attachment's event arrives
		w.rec(Step{K: "late-monitor-event", Addr: f.Addr})
		old.InjectMonitor(fmt.Errorf("r/w timeout"))
		close(release)
		for i := 0; i < 200 && atomic.LoadInt32(&old.Delivered) == 0; i++ {
			time.Sleep(time.Millisecond)
		}
		time.Sleep(5 * time.Millisecond)
		w.Res.Count("late_monitor_events", 1)
		st := w.C.VerifState()
		still := false
		for _, rp := range st.Replicas {
			if rp.Address == f.Addr && rp.Mode == types.RW {
				still = true
			}
		}
		if !still {
			w.FailAny([]string{"C05", "C18", "C02"}, "healthy-replica-detached:late-event-of-previous-attachment", fmt.Sprintf("%s was re-added and rebuilt; the monitor event of its previous attachment then arrived and the controller detached the new attachment: %s", f.Addr, digest(st, true)))
			return
		}
		w.CheckSettled("late-monitor-event")
		w.IO("write", o, l, nil)
		w.readSweep()
	}
	w.CheckImages()
}
