package ctlsim

import (
	"encoding/binary"
	"fmt"
	"sync"
	"sync/atomic"
	"time"

	"github.com/anishathalye/porcupine"
	"github.com/openebs/jiva/types"

	"verif/harness/internal/vk"
)

type regIn struct {
	Block int
	Write bool
	Val   uint64
}

// RunConcurrent drives one controller from several client goroutines (block
// reads and writes with unique values, replicas answering with seeded delays,
// a replica failing in the middle) and checks the recorded history for
// linearizability against a register-per-block model. Failed writes stay open
// to the end of the history (they may have taken effect).
func RunConcurrent(w *World, idx int) {
	r := w.R
	quorum := w.RF/2 + 1
	nRW := r.Range(quorum, w.RF)
	w.Cfg = map[string]interface{}{"rf": w.RF, "rw": nRW, "scenario": "concurrent-clients"}
	if !w.BringUp(nRW, false) {
		return
	}
	for _, f := range w.Order {
		f.Jitter = r.Range(0, 6)
	}
	nblocks := r.Range(2, 5)
	K := r.Range(2, 8)
	per := 600 / K
	var mu sync.Mutex
	var ops []porcupine.Operation
	var next uint64 = 1
	t0 := time.Now()
	var wg sync.WaitGroup
	// one replica fails half way (its next write errors), exercising detach under concurrency
	var victim *Fake
	if fs, _ := w.Attached(); len(fs) > quorum && r.Chance(60) {
		victim = fs[r.Intn(len(fs))]
	}
	var done int64
	for g := 0; g < K; g++ {
		wg.Add(1)
		seed := r.U64()
		go func(g int) {
			defer wg.Done()
			rr := vk.NewRand(seed)
			for i := 0; i < per; i++ {
				if victim != nil && atomic.AddInt64(&done, 1) == int64(K*per/2) {
					victim.mu.Lock()
					victim.Next["write"] = ErrNotApplied
					victim.mu.Unlock()
				}
				blk := rr.Intn(nblocks)
				buf := make([]byte, 4096)
				if rr.Chance(50) {
					v := atomic.AddUint64(&next, 1)
					for k := 0; k < 4096; k += 8 {
						binary.LittleEndian.PutUint64(buf[k:], v)
					}
					call := time.Since(t0).Nanoseconds()
					n, err := w.C.WriteAt(buf, int64(blk)*4096)
					ret := time.Since(t0).Nanoseconds()
					if err != nil || n != 4096 {
						ret = int64(1) << 60 // may or may not have taken effect: keep it open
					}
					mu.Lock()
					ops = append(ops, porcupine.Operation{ClientId: g, Input: regIn{blk, true, v}, Call: call, Output: uint64(0), Return: ret})
					mu.Unlock()
				} else {
					call := time.Since(t0).Nanoseconds()
					n, err := w.C.ReadAt(buf, int64(blk)*4096)
					ret := time.Since(t0).Nanoseconds()
					if err != nil || n != 4096 {
						continue // a failed read observed nothing
					}
					v := binary.LittleEndian.Uint64(buf)
					for k := 8; k < 4096; k += 8 {
						if binary.LittleEndian.Uint64(buf[k:]) != v {
							v = ^uint64(0)
						}
					}
					mu.Lock()
					ops = append(ops, porcupine.Operation{ClientId: g, Input: regIn{blk, false, 0}, Call: call, Output: v, Return: ret})
					mu.Unlock()
				}
			}
		}(g)
	}
	wg.Wait()
	for _, f := range w.Order {
		f.Jitter = 0
	}
	model := porcupine.Model{
		Partition: func(h []porcupine.Operation) [][]porcupine.Operation {
			m := map[int][]porcupine.Operation{}
			for _, o := range h {
				b := o.Input.(regIn).Block
				m[b] = append(m[b], o)
			}
			var out [][]porcupine.Operation
			for _, v := range m {
				out = append(out, v)
			}
			return out
		},
		Init: func() interface{} { return uint64(0) },
		Step: func(st, in, out interface{}) (bool, interface{}) {
			i := in.(regIn)
			if i.Write {
				return true, i.Val
			}
			return out.(uint64) == st.(uint64), st
		},
	}
	res, _ := porcupine.CheckOperationsVerbose(model, ops, 2*time.Minute)
	w.Res.Count("concurrent_histories", 1)
	w.Res.Count("concurrent_history_operations", int64(len(ops)))
	w.NonTrivial = true
	w.rec(Step{K: "concurrent-clients", Note: fmt.Sprintf("%d goroutines, %d blocks, %d operations, failing replica: %v", K, nblocks, len(ops), victim != nil)})
	switch res {
	case porcupine.Illegal:
		w.FailAny([]string{"C02", "C04"}, "concurrent-history-not-linearizable", fmt.Sprintf("history of %d block reads/writes by %d concurrent clients through the controller (RF %d, %d RW) is not linearizable: a read returned a value that no acknowledged order of the writes explains", len(ops), K, w.RF, nRW))
	case porcupine.Unknown:
		w.Res.Inconclusive = append(w.Res.Inconclusive, "porcupine timed out on a controller history")
	default:
		w.Res.Count("concurrent_histories_linearizable", 1)
	}
	// the concurrent values are not stamps of the sector model
	for i := range w.Acked {
		w.Acked[i] = 0
	}
	w.Dead = w.Dead || false
	_ = types.RW
	w.CheckSettled("concurrent-clients")
}
