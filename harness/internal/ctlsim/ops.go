package ctlsim

import (
	"fmt"
	"sort"
	"strings"
	"sync/atomic"
	"time"

	"github.com/openebs/jiva/types"

	"verif/harness/internal/reng"
)

func (w *World) state() string { return digest(w.C.VerifState(), false) }

// Register sends a registration request for fake f.
func (w *World) Register(f *Fake, state string) {
	if w.Dead {
		return
	}
	s := w.rec(Step{K: "register", Addr: f.IP, Note: fmt.Sprintf("rev=%d state=%s", f.Rev, state)})
	err := w.C.RegisterReplica(types.RegReplica{Address: f.IP, UUID: f.UUID, RevCount: f.Rev, RepType: "Backend", RepState: state, UpTime: time.Second})
	if err != nil {
		s.Res = "err: " + err.Error()
	}
}

// Start calls Controller.Start for the given fakes (first = caller).
func (w *World) Start(fs ...*Fake) error {
	addrs := []string{}
	for _, f := range fs {
		addrs = append(addrs, f.Addr)
	}
	s := w.rec(Step{K: "start", Addr: strings.Join(addrs, ",")})
	err := w.C.Start(addrs...)
	if err != nil {
		s.Res = "err: " + err.Error()
	}
	w.noteAttach()
	return err
}

// Add attaches f as WO through AddReplica.
func (w *World) Add(f *Fake) error {
	s := w.rec(Step{K: "add", Addr: f.Addr})
	err := w.C.AddReplica(f.Addr)
	if err != nil {
		s.Res = "err: " + err.Error()
	}
	w.noteAttach()
	return err
}

// SyncFrom performs what the file sync of a rebuild achieves: everything the
// WO replica has not received itself since it was attached is copied from an
// RW replica, and the snapshot chain below the head is taken over.
func (w *World) SyncFrom(dst *Fake) bool {
	st := w.C.VerifState()
	var src *Fake
	for _, r := range st.Replicas {
		if r.Mode == types.RW && src == nil { // the first RW entry, as sync.getFromReplica and the controller choose
			src = w.Fakes[r.Address]
		}
	}
	if src == nil || src == dst {
		return false
	}
	src.mu.Lock()
	// the file sync transfers snapshot files only: what the source wrote into its head after the snapshot taken
	// when dst was added reaches dst solely through replication
	data := append([]byte(nil), src.Data...)
	if len(src.Chain) > 1 {
		if sd, ok := src.SnapData[src.Chain[1]]; ok && len(dst.Chain) > 1 && dst.Chain[1] == src.Chain[1] {
			data = append([]byte(nil), sd...)
		}
	}
	chain := append([]string(nil), src.Chain...)
	snaps := map[string][]byte{}
	for k, v := range src.SnapData {
		snaps[k] = v
	}
	src.mu.Unlock()
	dst.mu.Lock()
	for s := range dst.Dirty {
		if !dst.Dirty[s] {
			copy(dst.Data[s*512:(s+1)*512], data[s*512:(s+1)*512])
		}
	}
	dst.Chain = append([]string{dst.Chain[0]}, chain[1:]...)
	dst.SnapData = snaps
	dst.mu.Unlock()
	w.rec(Step{K: "filesync", Addr: dst.Addr, Note: "from " + src.Addr})
	return true
}

// Verify calls VerifyRebuildReplica and checks the promotion protocol (C10/C07 clause).
func (w *World) Verify(f *Fake) error {
	s := w.rec(Step{K: "verify", Addr: f.Addr})
	f.mu.Lock()
	f.SetCalls = nil
	f.mu.Unlock()
	pre := w.C.VerifState()
	var srcRev int64 = -1
	for _, r := range pre.Replicas {
		if r.Mode == types.RW {
			// getCurrentAndRWReplica takes the first RW entry
			if srcRev < 0 {
				src := w.Fakes[r.Address]
				src.mu.Lock()
				srcRev = src.Rev
				src.mu.Unlock()
			}
		}
	}
	err := w.C.VerifyRebuildReplica(f.Addr)
	if err != nil {
		s.Res = "err: " + err.Error()
		return err
	}
	post := w.C.VerifState()
	for _, r := range post.Replicas {
		if r.Address == f.Addr && r.Mode == types.RW {
			f.mu.Lock()
			calls := strings.Join(f.SetCalls, " ")
			rev := f.Rev
			f.mu.Unlock()
			w.Res.Count("promotions", 1)
			if !strings.Contains(calls, "mode=RW") {
				w.Fail("C10", "promotion:replica-not-told-RW", "promoted without SetReplicaMode(RW): "+calls)
				return nil
			}
			if srcRev >= 0 && rev != srcRev {
				w.Fail("C10", "promotion:counter-not-equalised", fmt.Sprintf("promoted replica reports revision %d, source %d (calls: %s)", rev, srcRev, calls))
				return nil
			}
		}
	}
	return nil
}

// OrphanVerify: every RW replica is gone and a rebuilding (WO) replica is still
// attached. A late or retried verify-rebuild request for it has no healthy
// replica to be checked against: it must be refused, the replica must not
// become RW, and a read must fail rather than be served by it.
func (w *World) OrphanVerify() {
	if w.Dead {
		return
	}
	st := w.C.VerifState()
	if modeCount(st, types.RW) > 0 {
		return
	}
	for _, r := range st.Replicas {
		if r.Mode != types.WO {
			continue
		}
		s := w.rec(Step{K: "verify", Addr: r.Address, Note: "no RW replica left"})
		err := w.C.VerifyRebuildReplica(r.Address)
		s.Res = fmt.Sprint(err)
		w.Res.Count("verify_requests_without_any_RW_replica", 1)
		post := w.C.VerifState()
		for _, q := range post.Replicas {
			if q.Address == r.Address && q.Mode == types.RW {
				w.FailAny([]string{"C04", "C07", "C18", "C02"}, "rebuilding-replica-promoted-without-any-RW-source", fmt.Sprintf("with no RW replica left, verify-rebuild of the WO replica %s returned %v and it is now listed RW: %s", r.Address, err, digest(post, true)))
				return
			}
		}
		o, l := w.RandRange()
		w.IO("read", o, l, nil)
	}
}

func (w *World) Remove(f *Fake) {
	w.rec(Step{K: "remove", Addr: f.Addr})
	w.C.RemoveReplica(f.Addr)
}

// SnapshotOp issues a volume snapshot and checks C13's per-call clauses:
// an accepted snapshot exists on every replica the controller still lists as
// RW, on all RF replicas when nothing was scripted to fail, and a replica that
// took it without a fault is not detached for it.
func (w *World) SnapshotOp(name, note string, failing, leaving *Fake) (string, error) {
	s := w.rec(Step{K: "snapshot", Note: note, Addr: name})
	preFs, preModes := w.Attached()
	got, err := w.C.Snapshot(name)
	if err != nil {
		s.Res = err.Error()
	}
	if w.Dead {
		return got, err
	}
	has := func(f *Fake) bool {
		f.mu.Lock()
		defer f.mu.Unlock()
		for _, e := range f.Log {
			if e.Kind == "s" && e.Name == name {
				return true
			}
		}
		return false
	}
	_, postModes := w.Attached()
	took := 0
	for _, f := range preFs {
		if !has(f) {
			continue
		}
		took++
		if preModes[f] == types.RW && f != failing && f != leaving {
			if m, ok := postModes[f]; !ok || m == types.ERR {
				w.Fail("C13", "healthy-replica-detached:snapshot", fmt.Sprintf("%s took snapshot %s without error but is no longer attached when the call returns (%s)", f.Addr, name, note))
				return got, err
			}
		}
	}
	w.Res.Count("snapshot_calls_checked", 1)
	if err != nil {
		return got, err
	}
	for f, m := range postModes {
		if m == types.RW && !has(f) {
			w.Fail("C13", "accepted-snapshot-missing-on-RW-replica", fmt.Sprintf("snapshot %s was accepted, %s is listed RW afterwards but never took it (%s)", name, f.Addr, note))
			return got, err
		}
	}
	if failing == nil && took != w.RF {
		w.Fail("C13", "accepted-snapshot-on-fewer-than-RF", fmt.Sprintf("snapshot %s was accepted without any replica failing, but only %d of %d replicas took it (%s)", name, took, w.RF, note))
	}
	return got, err
}

// MonitorFail makes the monitor of f report a failure (ping timeout / dropped connection).
func (w *World) MonitorFail(f *Fake, kill bool) {
	w.rec(Step{K: "monitorfail", Addr: f.Addr, Note: fmt.Sprintf("kill=%v", kill)})
	f.mu.Lock()
	c := f.conn
	if kill {
		f.Alive = false
	}
	f.mu.Unlock()
	if c != nil && w.Net && (w.forceHang || w.R.Chance(25)) {
		w.forceHang = false
		// the replica hangs first - long enough for the monitor's next ping (one every 2 s) to be outstanding - and
		// only then the connection goes away: the failure arrives while the monitor waits for a reply, not between pings
		atomic.StoreInt32(&f.PingHang, 1)
		time.Sleep(2400 * time.Millisecond)
		c.InjectMonitor(fmt.Errorf("connection lost"))
		atomic.StoreInt32(&f.PingHang, 0)
		w.Res.Count("monitor_failures_with_a_ping_outstanding", 1)
	} else if c != nil {
		if w.Net || w.R.Bool() {
			c.InjectMonitor(fmt.Errorf("Ping timeout"))
		} else {
			// a dropped connection: the rpc client notifies the close channel, the monitor then reports nil
			atomic.AddInt32(&c.ErrInjected, 1)
			select {
			case c.closeChan <- struct{}{}:
			default:
			}
		}
	}
}

// Restart models the replica process coming back: closed, data as persisted.
func (w *World) Restart(f *Fake) {
	f.mu.Lock()
	c := f.conn
	f.mu.Unlock()
	// the previous attachment's single monitor event must have been consumed
	if c != nil && c.net {
		// behind the real backend: the controller has acted on the lost connection when it no longer lists the replica
		for i := 0; i < 3000 && c.Signalled(); i++ {
			listed := false
			for _, r := range w.C.VerifState().Replicas {
				if r.Address == f.Addr {
					listed = true
				}
			}
			if !listed {
				break
			}
			time.Sleep(time.Millisecond)
		}
		c.drop()
	} else if c != nil {
		for i := 0; i < 3000; i++ {
			if !c.Signalled() || (atomic.LoadInt32(&c.Delivered) != 0 && len(c.monitorChan) == 0) {
				break
			}
			time.Sleep(time.Millisecond)
		}
		time.Sleep(2 * time.Millisecond)
	}
	w.rec(Step{K: "restart", Addr: f.Addr})
	f.mu.Lock()
	f.Alive = true
	f.State = "closed"
	f.Mode = "INIT"
	f.conn = nil
	f.Rebuilding = false
	f.mu.Unlock()
}

// Attached returns the fakes listed by the controller with their modes.
func (w *World) Attached() ([]*Fake, map[*Fake]types.Mode) {
	st := w.C.VerifState()
	var fs []*Fake
	m := map[*Fake]types.Mode{}
	for _, r := range st.Replicas {
		if f := w.Fakes[r.Address]; f != nil {
			fs = append(fs, f)
			m[f] = r.Mode
		}
	}
	return fs, m
}

// ---------------------------------------------------------------- I/O with fault assignment

// IO performs one frontend operation with a scripted outcome per attached
// replica and evaluates the C02/C03/C04/C05 clauses for it.
func (w *World) IO(kind string, off, length int64, faults map[*Fake]Outcome) {
	if w.Dead {
		return
	}
	pre := w.C.VerifState()
	A := map[string]types.Mode{}
	for _, r := range pre.Replicas {
		if r.Mode != types.ERR {
			A[r.Address] = r.Mode
		}
	}
	// who may serve a read is decided by the reported mode (RW), not by the replicator's internal reader list
	readers := map[string]bool{}
	for _, r := range pre.Replicas {
		if r.Mode == types.RW {
			readers[r.Address] = true
		}
	}
	fs := map[string]string{}
	logLen := map[*Fake]int{}
	reads := map[*Fake]int{}
	calls := map[*Fake]int{}
	for _, f := range w.Order {
		f.mu.Lock()
		delete(f.Next, kind)
		if o, ok := faults[f]; ok && o != OK {
			f.Next[kind] = o
			fs[f.IP] = OutcomeNames[o]
		}
		logLen[f] = len(f.Log)
		reads[f] = f.ReadsServed
		calls[f] = len(f.Calls)
		f.mu.Unlock()
	}
	step := w.rec(Step{K: kind, Off: off, Len: length, Faults: fs, State: digest(pre, false)})
	if len(fs) > 0 {
		w.nFaultOps++
	}
	var wid uint32
	var n int
	var err error
	var buf []byte
	start := time.Now()
	switch kind {
	case "write":
		wid = w.NextWID
		w.NextWID++
		step.WID = wid
		buf = reng.Payload(off, length, wid)
		n, err = w.C.WriteAt(buf, off)
	case "read":
		buf = make([]byte, length)
		n, err = w.C.ReadAt(buf, off)
	case "sync":
		n, err = w.C.Sync()
	case "unmap":
		n, err = w.C.Unmap(off, length)
	}
	took := time.Since(start)
	w.Res.Count("io_"+kind, 1)
	ack := err == nil
	if kind == "write" || kind == "read" {
		ack = err == nil && int64(n) == length
	}
	if ack {
		step.Res = "ack"
	} else {
		step.Res = fmt.Sprintf("fail n=%d err=%v", n, err)
	}
	post := w.C.VerifState()
	// who received / applied it
	applied := map[string]bool{}
	received := map[string]bool{}
	served := []string{}
	for _, f := range w.Order {
		f.mu.Lock()
		for _, c := range f.Calls[calls[f]:] {
			if c.Name == kind || strings.HasPrefix(c.Name, kind+"(") {
				received[f.Addr] = true
			}
		}
		if len(f.Log) > logLen[f] {
			applied[f.Addr] = true
		}
		if f.ReadsServed > reads[f] {
			served = append(served, f.Addr)
		}
		// leftover script entries (fake not called) must not leak into later ops
		delete(f.Next, kind)
		f.mu.Unlock()
	}
	mutating := kind != "read"
	quorum := w.RF/2 + 1
	if mutating {
		// C03: refused without touching any replica while read-only
		if pre.ReadOnly {
			w.Res.Count("mutations_attempted_readonly", 1)
			if ack {
				w.Fail("C03", "accepted-while-readonly:"+kind, fmt.Sprintf("%s acknowledged while the volume is read-only: %s", kind, digest(pre, true)))
				return
			}
			if len(received) > 0 {
				w.Fail("C03", "readonly-but-replica-touched:"+kind, fmt.Sprintf("%s refused in read-only mode but reached %v", kind, keysOf(received)))
				return
			}
			if took < 900*time.Millisecond {
				w.Res.Count("readonly_refusal_without_delay", 1)
			}
			return
		}
		if modeCount(pre, types.RW) < quorum {
			w.Fail("C03", "not-readonly-below-quorum:"+kind, fmt.Sprintf("RF=%d with %d RW replicas but the volume is not read-only: %s", w.RF, modeCount(pre, types.RW), digest(pre, true)))
			return
		}
		// C02 (i)/(ii)
		nA := len(A)
		nS := 0
		for a := range A {
			if applied[a] {
				nS++
			}
		}
		if kind == "write" {
			w.Res.Count(fmt.Sprintf("write_fault_shape:A%d:S%d:ack%v", nA, nS, ack), 1)
		}
		if ack && !(nS > nA/2) {
			w.Fail("C02", fmt.Sprintf("acknowledged-without-majority:%s:A%d:S%d", kind, nA, nS), fmt.Sprintf("%s acknowledged although only %d of %d attached replicas applied it; faults %v; %s", kind, nS, nA, fs, digest(pre, true)))
			return
		}
		// C05: a failing minority must not surface
		nF := 0
		rwOK := false
		for a, m := range A {
			f := w.Fakes[a]
			if faults[f].Fails() {
				nF++
			} else if m == types.RW {
				rwOK = true
			}
		}
		if !ack && nA-nF > nA/2 && rwOK {
			w.Fail("C05", fmt.Sprintf("minority-failure-surfaced:%s:A%d:F%d", kind, nA, nF), fmt.Sprintf("%s failed (%v) although only %d of %d attached replicas failed and an RW replica was fine; faults %v; %s", kind, err, nF, nA, fs, digest(pre, true)))
			return
		}
		// C02 (iii): every attached replica that failed is detached when the call returns
		for a := range A {
			f := w.Fakes[a]
			if faults[f].Fails() && received[a] {
				for _, r := range post.Replicas {
					if r.Address == a {
						w.FailAny([]string{"C02", "C05"}, "failed-replica-still-attached:"+kind+":"+string(r.Mode), fmt.Sprintf("%s failed the %s (%s) but is still attached as %s when the call returns: %s", a, kind, OutcomeNames[faults[f]], r.Mode, digest(post, true)))
						return
					}
				}
			}
		}
		// only the failing replicas are isolated: a replica that handled the operation stays attached
		for a := range A {
			f := w.Fakes[a]
			if faults[f].Fails() || !received[a] {
				continue
			}
			still := false
			for _, r := range post.Replicas {
				if r.Address == a {
					still = true
				}
			}
			if !still {
				w.FailAny([]string{"C05", "C02"}, "healthy-replica-detached:"+kind, fmt.Sprintf("%s handled the %s without error but is no longer attached when the call returns; faults %v; before: %s after: %s", a, kind, fs, digest(pre, false), digest(post, false)))
				return
			}
		}
		// writes must reach exactly the writers
		if kind == "write" {
			for a := range received {
				if _, ok := A[a]; !ok {
					w.Fail("C18", "write-reached-non-writer", fmt.Sprintf("write reached %s which is not an attached non-ERR replica: %s", a, digest(pre, true)))
					return
				}
			}
			for a := range A {
				if !received[a] {
					w.Fail("C18", "write-skipped-writer", fmt.Sprintf("write did not reach attached replica %s: %s", a, digest(pre, true)))
					return
				}
			}
			// model
			if ack {
				for s := off / 512; s < (off+length)/512; s++ {
					w.Acked[s] = wid
					delete(w.Maybe, s)
				}
				w.AckLog = append(w.AckLog, wid)
			} else if nS > 0 {
				for s := off / 512; s < (off+length)/512; s++ {
					w.Maybe[s] = append(w.Maybe[s], wid)
				}
			}
		}
		return
	}
	// ---- read
	nRW := modeCount(pre, types.RW)
	if err == nil && int64(n) != length {
		// neither the data nor an error: a caller that trusts err (io.ReaderAt) would use an unfilled buffer
		w.Fail("C04", "read-returned-short-without-error", fmt.Sprintf("ReadAt(%d bytes at %d) returned n=%d, err=nil; faults %v; %s", length, off, n, fs, digest(pre, true)))
		return
	}
	for _, a := range served {
		if !readers[a] {
			w.Fail("C04", "read-served-by-non-RW:"+string(A[a]), fmt.Sprintf("read served by %s which is %q, not RW: %s", a, A[a], digest(pre, true)))
			return
		}
	}
	for a := range received {
		if !readers[a] {
			w.Fail("C04", "read-sent-to-non-RW:"+string(A[a]), fmt.Sprintf("read sent to %s which is %q, not RW: %s", a, A[a], digest(pre, true)))
			return
		}
	}
	nFail := 0
	for a := range readers {
		if faults[w.Fakes[a]].Fails() {
			nFail++
		}
	}
	if ack {
		w.Res.Count("reads_acknowledged", 1)
		w.Res.Count("bytes_compared", length)
		if nRW == 0 {
			w.Fail("C04", "read-succeeded-without-RW", "read succeeded with no RW replica: "+digest(pre, true))
			return
		}
		if m := w.checkData(buf, off); m != "" {
			w.Fail("C04", "read-returned-unacknowledged-state", fmt.Sprintf("read [%d,+%d): %s; faults %v; %s", off, length, m, fs, digest(pre, true)))
			return
		}
		okServed := 0
		for _, a := range served {
			if !faults[w.Fakes[a]].Fails() {
				okServed++
			}
		}
		if okServed != 1 {
			w.Fail("C04", "read-not-served-by-exactly-one", fmt.Sprintf("successful read served by %v (faults %v)", served, fs))
			return
		}
	} else {
		if nRW > 0 && nFail < nRW && off >= 0 && off+length <= pre.Size {
			w.FailAny([]string{"C05", "C04"}, fmt.Sprintf("read-failed-with-healthy-RW:RW%d:F%d", nRW, nFail), fmt.Sprintf("read failed (%v) although %d of %d RW replicas were healthy; faults %v; %s", err, nRW-nFail, nRW, fs, digest(pre, true)))
			return
		}
	}
	// tried-and-failed readers are detached
	for a := range received {
		f := w.Fakes[a]
		if faults[f].Fails() {
			for _, r := range post.Replicas {
				if r.Address == a {
					w.FailAny([]string{"C04", "C05"}, "failed-reader-still-attached", fmt.Sprintf("%s failed the read but is still attached as %s", a, r.Mode))
					return
				}
			}
		}
	}
}

func keysOf(m map[string]bool) []string {
	var out []string
	for k := range m {
		out = append(out, k)
	}
	sort.Strings(out)
	return out
}

// RandRange draws an I/O range (512-multiples, small volume => many overlaps).
func (w *World) RandRange() (int64, int64) {
	secs := int(w.Size / 512)
	o := w.R.Intn(secs)
	l := w.R.Range(1, 24)
	if o+l > secs {
		l = secs - o
	}
	return int64(o) * 512, int64(l) * 512
}

// RangeCheck probes the controller's bounds check (C01's last sentence).
func (w *World) RangeCheck() {
	if w.Dead {
		return
	}
	st := w.C.VerifState()
	if st.ReadOnly || len(st.Readers) == 0 {
		return
	}
	size := st.Size
	type probe struct{ off, l int64 }
	ps := []probe{{-512, 512}, {size, 512}, {size - 512, 1024}, {size + 4096, 512}, {1 << 40, 4096}, {-1, 1}, {size - 1024, 4096}}
	p := ps[w.R.Intn(len(ps))]
	calls := map[*Fake]int{}
	for _, f := range w.Order {
		f.mu.Lock()
		calls[f] = len(f.Calls)
		f.mu.Unlock()
	}
	kind := "write"
	if w.R.Bool() {
		kind = "read"
	}
	s := w.rec(Step{K: "range-" + kind, Off: p.off, Len: p.l})
	var err error
	var n int
	if kind == "write" {
		n, err = w.C.WriteAt(make([]byte, p.l), p.off)
	} else {
		n, err = w.C.ReadAt(make([]byte, p.l), p.off)
	}
	w.Res.Count("range_probes", 1)
	if err == nil {
		s.Res = "accepted"
		w.Fail("C01", "range:out-of-bounds-"+kind+"-accepted", fmt.Sprintf("%s of %d bytes at %d accepted (n=%d) on a volume of %d bytes", kind, p.l, p.off, n, size))
		return
	}
	for _, f := range w.Order {
		f.mu.Lock()
		extra := len(f.Calls) - calls[f]
		f.mu.Unlock()
		if extra > 0 {
			w.Fail("C01", "range:out-of-bounds-"+kind+"-reached-replica", fmt.Sprintf("refused %s at %d reached replica %s", kind, p.off, f.Addr))
			return
		}
	}
}
