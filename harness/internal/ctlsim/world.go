package ctlsim

import (
	"encoding/binary"
	"encoding/json"
	"fmt"
	"net/http"
	"net/http/httptest"
	"os"
	"sort"
	"strings"
	"sync"
	"sync/atomic"
	"time"

	"github.com/openebs/jiva/controller"
	crest "github.com/openebs/jiva/controller/rest"
	"github.com/openebs/jiva/types"

	"verif/harness/internal/reng"
	"verif/harness/internal/vk"
)

// Step is one recorded step of a controller history.
type Step struct {
	K      string            `json:"k"`
	Addr   string            `json:"addr,omitempty"`
	Off    int64             `json:"off,omitempty"`
	Len    int64             `json:"len,omitempty"`
	WID    uint32            `json:"wid,omitempty"`
	Faults map[string]string `json:"faults,omitempty"`
	Res    string            `json:"res,omitempty"`
	Note   string            `json:"note,omitempty"`
	State  string            `json:"state,omitempty"`
}

// World is one controller with its scripted replicas and the model of
// acknowledged data.
type World struct {
	Prop  string
	RF    int
	C     *controller.Controller
	Fac   *Factory
	Front *Frontend
	Fakes map[string]*Fake
	Order []*Fake
	Size  int64
	R     *vk.Rand
	jit   *vk.Rand
	jmu   sync.Mutex
	Res   *vk.Result
	Log   []Step
	Dead  bool
	seq   int64
	Seed  uint64
	Case  int
	Cfg   map[string]interface{}

	Acked      []uint32
	Maybe      map[int64][]uint32
	AckLog     []uint32
	NextWID    uint32
	attachA    map[*Conn]int // index into AckLog at attach time
	statPolls  int
	beat       int64 // time of the last step begun (unix ns, atomic): the progress watchdog of RunWorker reads it
	snapModels map[string]*snapModel
	rest       http.Handler // the controller's management API (what an operator or the CSI driver sees)
	rdv        *rendezvous  // set while an operation's replicas are to answer at the same instant
	// Net: the controller uses the real backend (backend/remote + rpc) against scripted replica endpoints (net.go)
	Net        bool
	lateBudget int  // replies later than the rpc deadline still allowed in this history (net mode)
	forceHang  bool // the next monitor failure is of the hang-then-drop kind (net mode)
	// OperatorRW: an operator request set a replica's mode to RW by hand (no verification, no counter equalisation)
	OperatorRW bool

	ipA, ipB, ipN  int
	notes          []string
	nmu            sync.Mutex
	Journal        *os.File
	States         map[string]bool
	nFaultOps      int
	NonTrivial     bool
	lastCheckpoint string
}

func (w *World) note(s string) {
	w.nmu.Lock()
	if len(w.notes) < 20 {
		w.notes = append(w.notes, s)
	}
	w.nmu.Unlock()
}

// NewWorld builds a controller with RF and no replicas.
func NewWorld(prop string, rf int, size int64, r *vk.Rand, res *vk.Result, ipA, ipB int) *World {
	return newWorld(prop, rf, size, r, res, ipA, ipB, false)
}

// NewNetWorld is NewWorld with the real backend factory between the controller and the scripted replicas.
func NewNetWorld(prop string, rf int, size int64, r *vk.Rand, res *vk.Result, ipA, ipB int) *World {
	return newWorld(prop, rf, size, r, res, ipA, ipB, true)
}

func newWorld(prop string, rf int, size int64, r *vk.Rand, res *vk.Result, ipA, ipB int, netMode bool) *World {
	w := &World{Prop: prop, RF: rf, Size: size, R: r, jit: vk.NewRand(r.U64()), Res: res, Fakes: map[string]*Fake{},
		Maybe: map[int64][]uint32{}, Acked: make([]uint32, size/512), NextWID: 1, attachA: map[*Conn]int{}, ipA: ipA, ipB: ipB, States: map[string]bool{}}
	w.Net = netMode
	w.lateBudget = 2
	var factory types.BackendFactory
	if netMode {
		nf := newNetFactory(w)
		w.Fac = nf.Factory
		factory = nf
	} else {
		w.Fac = &Factory{W: w, SignalErr: map[string]bool{}}
		factory = w.Fac
	}
	w.Front = &Frontend{}
	os.Setenv("REPLICATION_FACTOR", fmt.Sprint(rf))
	w.C = controller.NewController(controller.WithName("vol1"), controller.WithClusterIP("127.0.0.1"), controller.WithBackend(factory),
		controller.WithFrontend(w.Front, "127.0.0.1"), controller.WithRF(rf))
	return w
}

// Close stops the HTTP stubs.
func (w *World) Close() {
	for _, f := range w.Order {
		f.stopHTTP()
		if w.Net {
			f.stopData()
		}
		// let go of what still hangs on this world: the monitor goroutine of every attachment (and with it the
		// controller's monitoring goroutine, which holds the backend) ends when its close channel is signalled;
		// the per-snapshot copies are the bulk of a fake's memory
		f.mu.Lock()
		c := f.conn
		f.SnapData = map[string][]byte{}
		f.mu.Unlock()
		if c != nil {
			select {
			case c.closeChan <- struct{}{}:
			default:
			}
		}
	}
}

// NewFakeAt creates a replica on the given loopback address (nil if it cannot be bound).
func (w *World) NewFakeAt(ip string, rev int64) *Fake {
	f := newFake(w, ip, w.Size, rev)
	if err := f.startHTTP(); err != nil {
		return nil
	}
	if w.Net {
		if err := f.startData(); err != nil {
			f.stopHTTP()
			return nil
		}
	}
	w.Fakes[f.Addr] = f
	w.Order = append(w.Order, f)
	return f
}

// NewFake creates a replica on a fresh loopback address.
func (w *World) NewFake(rev int64) *Fake {
	for try := 0; try < 2000; try++ {
		w.ipN++
		ip := fmt.Sprintf("127.%d.%d.%d", w.ipA, (w.ipB+w.ipN/250)%250+1, w.ipN%250+1)
		f := newFake(w, ip, w.Size, rev)
		if err := f.startHTTP(); err != nil {
			continue
		}
		if w.Net {
			if err := f.startData(); err != nil {
				f.stopHTTP()
				continue
			}
		}
		w.Fakes[f.Addr] = f
		w.Order = append(w.Order, f)
		return f
	}
	panic("harness: no free loopback address")
}

func (w *World) rec(s Step) *Step {
	atomic.StoreInt64(&w.beat, time.Now().UnixNano())
	w.Log = append(w.Log, s)
	p := &w.Log[len(w.Log)-1]
	if w.Journal != nil {
		b, _ := json.Marshal(p)
		w.Journal.Write(append(b, '\n'))
	}
	return p
}

// Fail records a violation (only those of the property under check count).
func (w *World) Fail(prop, sig, what string) {
	w.Dead = true
	if prop != w.Prop {
		w.Res.Count("other_property_observation:"+prop+":"+sig, 1)
		if os.Getenv("VERIF_DEV_DEBUG") != "" {
			fmt.Fprintf(os.Stderr, "DEV other-property %s %s: %s\n", prop, sig, what)
		}
		return
	}
	wit := map[string]interface{}{"config": w.Cfg, "steps": append([]Step(nil), w.Log...), "state": w.Describe()}
	w.Res.Violate(vk.Violation{Property: prop, Signature: sig, What: what, Seed: w.Seed, Case: w.Case, Witness: wit})
}

// FailAny records a violation that refutes several properties at once; it is
// reported under the property being checked if that is one of them.
func (w *World) FailAny(props []string, sig, what string) {
	for _, p := range props {
		if p == w.Prop {
			w.Fail(p, sig, what)
			return
		}
	}
	w.Fail(props[0], sig, what)
}

// Describe renders the controller state.
func (w *World) Describe() string {
	st := w.C.VerifState()
	return digest(st, true)
}

func digest(st controller.VerifState, full bool) string {
	var b strings.Builder
	for _, r := range st.Replicas {
		fmt.Fprintf(&b, "%s=%s ", r.Address, r.Mode)
	}
	fmt.Fprintf(&b, "| RO=%v rw=%d cp=%q", st.ReadOnly, st.RWReplicaCount, st.Checkpoint)
	if full {
		bk := []string{}
		for a, m := range st.Backends {
			bk = append(bk, a+"="+string(m))
		}
		sort.Strings(bk)
		fmt.Fprintf(&b, " backends=%v writers=%v readers=%v", bk, st.Writers, st.Readers)
	}
	return b.String()
}

// ---------------------------------------------------------------- settle

// Settle waits until every monitor event that has been triggered has been
// acted upon by the controller and the state is stable. It returns false if
// that does not happen within the bound.
func (w *World) Settle() bool {
	deadline := time.Now().Add(5 * time.Second)
	stable := 0
	prev := ""
	for time.Now().Before(deadline) {
		st := w.C.VerifState()
		pending := false
		for _, f := range w.Order {
			f.mu.Lock()
			c := f.conn
			f.mu.Unlock()
			if c == nil || !c.Signalled() {
				continue
			}
			for _, r := range st.Replicas {
				if r.Address == f.Addr {
					pending = true
				}
			}
		}
		if w.Net {
			// behind the real backend a stop request of the controller is not visible to the harness: an entry
			// marked ERR is one whose monitor was stopped and whose removal is under way
			for _, r := range st.Replicas {
				if r.Mode == types.ERR {
					pending = true
				}
			}
		}
		d := digest(st, true)
		if !pending && d == prev {
			stable++
			if stable >= 3 {
				return true
			}
		} else {
			stable = 0
		}
		prev = d
		time.Sleep(time.Millisecond)
	}
	return false
}

// ---------------------------------------------------------------- oracles at settled points

func modeCount(st controller.VerifState, m types.Mode) int {
	n := 0
	for _, r := range st.Replicas {
		if r.Mode == m {
			n++
		}
	}
	return n
}

// CheckSettled evaluates the bookkeeping invariants (C18), the read-only rule
// (C03) and the checkpoint rule (C13) at a settled point.
func (w *World) CheckSettled(after string) {
	if w.Dead {
		return
	}
	atomic.StoreInt64(&w.beat, time.Now().UnixNano())
	w.pollStats()
	if !w.Settle() {
		w.FailAny([]string{"C05", "C18", "C03", "C13", "C02", "C04", "C15"}, "settle:replica-with-fired-monitor-still-attached:"+after, "a replica whose monitor reported a failure (or was stopped) is still attached after 5s: "+w.Describe())
		return
	}
	type failure struct{ prop, sig, what string }
	var fails []failure
	collect := func(prop, sig, what string) {
		fails = append(fails, failure{prop, sig, what})
	}
	defer func() {
		// report the clause of the property under check if it is among the failed ones, else the first
		if len(fails) == 0 || w.Dead {
			return
		}
		for _, f := range fails {
			if f.prop == w.Prop {
				w.Fail(f.prop, f.sig, f.what)
				return
			}
		}
		// clauses of other properties refuted on the hooked state: counted, and the history goes on - the harness's
		// own model is built from calls and return values, not from the controller's tables, so it has not diverged,
		// and what the inconsistency does to the property under check is still to be seen
		for _, f := range fails {
			w.Res.Count("other_property_observation:"+f.prop+":"+f.sig, 1)
		}
	}()
	st := w.C.VerifState()
	w.Res.Count("settled_points", 1)
	rw, wo := modeCount(st, types.RW), modeCount(st, types.WO)
	w.States[fmt.Sprintf("rf%d:rw%d:wo%d:err%d:ro%v:cp%v", w.RF, rw, wo, modeCount(st, types.ERR), st.ReadOnly, st.Checkpoint != "")] = true
	// C18
	seen := map[string]bool{}
	for _, r := range st.Replicas {
		if seen[r.Address] {
			collect("C18", "dup-address", "address twice in replica list: "+digest(st, true))
		}
		seen[r.Address] = true
	}
	if len(st.Replicas) > w.RF {
		collect("C18", "more-replicas-than-RF", fmt.Sprintf("%d data replicas with RF %d: %s", len(st.Replicas), w.RF, digest(st, true)))
	}
	if wo > 1 {
		collect("C18", "more-than-one-WO", digest(st, true))
	}
	if st.RWReplicaCount != rw {
		collect("C18", "rwcount-differs:"+after, fmt.Sprintf("RWReplicaCount=%d but %d RW entries: %s", st.RWReplicaCount, rw, digest(st, true)))
	}
	if len(st.Backends) != len(st.Replicas) {
		collect("C18", "backend-set-differs:"+after, digest(st, true))
	}
	var expW, expR []string
	for _, r := range st.Replicas {
		if m, ok := st.Backends[r.Address]; !ok || m != r.Mode {
			collect("C18", "backend-mode-differs:"+after, digest(st, true))
		}
		if r.Mode != types.ERR {
			expW = append(expW, r.Address)
		}
		if r.Mode == types.RW {
			expR = append(expR, r.Address)
		}
	}
	sort.Strings(expW)
	sort.Strings(expR)
	if strings.Join(expW, ",") != strings.Join(st.Writers, ",") {
		collect("C18", "writer-set-differs:"+after, fmt.Sprintf("writers %v, non-ERR replicas %v", st.Writers, expW))
	}
	if strings.Join(expR, ",") != strings.Join(st.Readers, ",") {
		collect("C18", "reader-set-differs:"+after, fmt.Sprintf("readers %v, RW replicas %v", st.Readers, expR))
	}
	// what the management API reports is what the controller holds: readOnly (C03), the replica list and modes (C18)
	if ro, reps, ok := w.restView(); ok {
		w.Res.Count("rest_views_compared", 1)
		if ro != st.ReadOnly {
			collect("C03", "rest-readonly-differs:"+after, fmt.Sprintf("GET /v1/volumes reports readOnly=%v, the controller holds ReadOnly=%v: %s", ro, st.ReadOnly, digest(st, true)))
		}
		var a, b []string
		for _, r := range st.Replicas {
			a = append(a, r.Address+"="+string(r.Mode))
		}
		for addr, m := range reps {
			b = append(b, addr+"="+m)
		}
		sort.Strings(a)
		sort.Strings(b)
		if strings.Join(a, ",") != strings.Join(b, ",") {
			collect("C18", "rest-replica-list-differs:"+after, fmt.Sprintf("GET /v1/replicas reports %v, the controller holds %v", b, a))
		}
	}
	// C10: promotion equalises the counter, so all RW replicas report the same count (suspended once an operator
	// declared a replica RW by fiat: no promotion protocol ran for it)
	if !w.OperatorRW {
		var ref int64 = -1
		refAddr := ""
		for _, r := range st.Replicas {
			f := w.Fakes[r.Address]
			if r.Mode != types.RW || f == nil {
				continue
			}
			f.mu.Lock()
			rev, fm := f.Rev, f.Mode
			f.mu.Unlock()
			if fm != "RW" {
				collect("C10", "rw-listed-replica-not-told-RW:"+after, fmt.Sprintf("%s is listed RW by the controller but was last told mode %q", r.Address, fm))
				continue
			}
			if ref < 0 {
				ref, refAddr = rev, r.Address
			} else if rev != ref {
				collect("C10", "rw-replicas-report-different-revision-counts:"+after, fmt.Sprintf("%s reports revision %d, %s reports %d: %s", refAddr, ref, r.Address, rev, digest(st, false)))
			}
		}
		w.Res.Count("rw_counter_comparisons", 1)
	}
	// a detached replica receives no further calls
	for _, f := range w.Order {
		f.mu.Lock()
		n := len(f.IOAfterClose)
		var first string
		if n > 0 {
			first = f.IOAfterClose[0]
		}
		f.mu.Unlock()
		if n > 0 {
			collect("C18", "call-after-detach:"+first, fmt.Sprintf("%s received %q after the controller closed it", f.Addr, first))
		}
	}
	// C03
	quorum := w.RF/2 + 1
	if st.ReadOnly != (rw < quorum) {
		collect("C03", fmt.Sprintf("readonly-flag-wrong:%s", after), fmt.Sprintf("RF=%d, %d RW replicas (quorum %d) but ReadOnly=%v: %s", w.RF, rw, quorum, st.ReadOnly, digest(st, true)))
	}
	// C13 (iii),(iv)
	if st.Checkpoint != "" {
		w.Res.Count("settled_points_with_checkpoint", 1)
		if rw != w.RF {
			collect("C13", "checkpoint-kept-without-all-RW:"+after, fmt.Sprintf("checkpoint %q recorded while %d of %d replicas are RW: %s", st.Checkpoint, rw, w.RF, digest(st, true)))
		}
		for _, r := range st.Replicas {
			f := w.Fakes[r.Address]
			f.mu.Lock()
			cp, chain := f.Checkpoint, append([]string(nil), f.Chain...)
			f.mu.Unlock()
			in := false
			for _, n := range chain {
				if n == st.Checkpoint {
					in = true
				}
			}
			if !in {
				collect("C13", "checkpoint-not-in-chain:"+after, fmt.Sprintf("checkpoint %q is not in the chain of %s: %v", st.Checkpoint, r.Address, chain))
			}
			if cp != st.Checkpoint {
				collect("C13", "checkpoint-not-persisted:"+after, fmt.Sprintf("controller checkpoint %q, replica %s persisted %q", st.Checkpoint, r.Address, cp))
			}
			if st.Checkpoint != w.lastCheckpoint && (len(chain) < 2 || chain[1] != st.Checkpoint) {
				collect("C13", "checkpoint-recorded-without-agreement:"+after, fmt.Sprintf("checkpoint %q newly recorded but latest snapshot of %s is %v", st.Checkpoint, r.Address, chain))
			}
		}
		if st.Checkpoint != w.lastCheckpoint {
			w.Res.Count("checkpoint_recordings", 1)
		}
	} else if w.lastCheckpoint != "" {
		w.Res.Count("checkpoint_withdrawals", 1)
	}
	w.lastCheckpoint = st.Checkpoint
}

// pollStats is the monitoring side of a deployment (maya-exporter polls GET /v1/stats every few seconds): a read-only
// request that arrives at any moment, in particular while a replica that just failed is still listed (mode ERR) and
// its removal is under way. It runs before the settle wait, always when an ERR entry is listed and else at every
// fourth settled point. Its answer is not judged here; what it may have done to the bookkeeping is judged by the
// invariants evaluated after the settle.
func (w *World) pollStats() {
	w.statPolls++
	st := w.C.VerifState()
	errListed := modeCount(st, types.ERR) > 0
	if !errListed && w.statPolls%4 != 0 {
		return
	}
	if w.rest == nil {
		w.rest = crest.NewRouter(crest.NewServer(w.C))
	}
	for _, path := range []string{"/v1/stats", "/v1/volumes", "/v1/replicas"} {
		rec := httptest.NewRecorder()
		w.rest.ServeHTTP(rec, httptest.NewRequest("GET", path, nil))
	}
	w.Res.Count("stats_polls", 1)
	if errListed {
		w.Res.Count("stats_polls_with_failed_replica_listed", 1)
	}
}

// restView asks the controller's own REST router (in-process) for the volume's
// readOnly field and the replica list.
func (w *World) restView() (bool, map[string]string, bool) {
	if w.rest == nil {
		w.rest = crest.NewRouter(crest.NewServer(w.C))
	}
	get := func(path string, into interface{}) bool {
		rec := httptest.NewRecorder()
		w.rest.ServeHTTP(rec, httptest.NewRequest("GET", path, nil))
		return rec.Code == 200 && json.Unmarshal(rec.Body.Bytes(), into) == nil
	}
	var vols struct {
		Data []struct {
			ReadOnly string `json:"readOnly"`
		} `json:"data"`
	}
	var reps struct {
		Data []struct {
			Address string `json:"address"`
			Mode    string `json:"mode"`
		} `json:"data"`
	}
	if !get("/v1/volumes", &vols) || len(vols.Data) != 1 || !get("/v1/replicas", &reps) {
		return false, nil, false
	}
	m := map[string]string{}
	for _, r := range reps.Data {
		m[r.Address] = r.Mode
	}
	if len(m) != len(reps.Data) {
		m["<duplicate address in GET /v1/replicas>"] = "?"
	}
	return vols.Data[0].ReadOnly == "true", m, true
}

// ---------------------------------------------------------------- data model

func stampOf(sec []byte) (uint32, bool) {
	zero := true
	for _, b := range sec[:512] {
		if b != 0 {
			zero = false
			break
		}
	}
	if zero {
		return 0, true
	}
	key := binary.LittleEndian.Uint64(sec)
	exp := make([]byte, 512)
	reng.FillSector(exp, uint32(key>>32), uint32(key))
	for i := range exp {
		if exp[i] != sec[i] {
			return 0, false
		}
	}
	return uint32(key >> 32), true
}

// checkData compares bytes at off with the model; a sector may hold the
// acknowledged write or any failed (unacknowledged) write that covered it later.
// CheckData is checkData for other engines that keep the same model.
func (w *World) CheckData(data []byte, off int64) string { return w.checkData(data, off) }

func (w *World) checkData(data []byte, off int64) string {
	for i := int64(0); i < int64(len(data))/512; i++ {
		s := off/512 + i
		sec := data[i*512 : (i+1)*512]
		id, ok := stampOf(sec)
		if !ok {
			if sec[0] == poison && sec[1] == poison {
				return fmt.Sprintf("sector %d holds the poison pattern of an unsynchronised replica, expected write#%d", s, w.Acked[s])
			}
			return fmt.Sprintf("sector %d holds garbage, expected write#%d", s, w.Acked[s])
		}
		if id == w.Acked[s] {
			continue
		}
		okMaybe := false
		for _, m := range w.Maybe[s] {
			if m == id {
				okMaybe = true
			}
		}
		if !okMaybe {
			return fmt.Sprintf("sector %d holds write#%d, expected acknowledged write#%d (unacknowledged candidates %v)", s, id, w.Acked[s], w.Maybe[s])
		}
	}
	return ""
}

// CheckImages compares every attached replica's stored data with the model (C02 iv).
func (w *World) CheckImages() {
	if w.Dead {
		return
	}
	st := w.C.VerifState()
	for _, r := range st.Replicas {
		if r.Mode == types.ERR {
			continue
		}
		f := w.Fakes[r.Address]
		f.mu.Lock()
		c := f.conn
		ids := map[uint32]bool{}
		for _, e := range f.Log {
			if e.Kind == "w" {
				ids[e.ID] = true
			}
		}
		var msg string
		if r.Mode == types.RW {
			msg = w.checkData(f.Data, 0)
		} else {
			for s := range f.Dirty {
				if f.Dirty[s] {
					if m := w.checkData(f.Data[s*512:(s+1)*512], int64(s)*512); m != "" {
						msg = m
						break
					}
				}
			}
		}
		f.mu.Unlock()
		w.Res.Count("replica_images_compared", 1)
		if msg != "" {
			w.Fail("C02", "attached-replica-lacks-acknowledged-data:"+string(r.Mode), fmt.Sprintf("%s (%s): %s", r.Address, r.Mode, msg))
			return
		}
		if from, ok := w.attachA[c]; ok {
			for _, id := range w.AckLog[from:] {
				if !ids[id] {
					w.Fail("C02", "attached-replica-missed-acknowledged-write:"+string(r.Mode), fmt.Sprintf("%s (%s) never applied acknowledged write#%d although it was attached when it was acknowledged", r.Address, r.Mode, id))
					return
				}
			}
		}
	}
}

// noteAttach remembers from which acknowledged write on a connection must hold everything.
func (w *World) noteAttach() {
	st := w.C.VerifState()
	for _, r := range st.Replicas {
		f := w.Fakes[r.Address]
		if f == nil {
			continue
		}
		f.mu.Lock()
		c := f.conn
		f.mu.Unlock()
		if c != nil {
			if _, ok := w.attachA[c]; !ok {
				w.attachA[c] = len(w.AckLog)
			}
		}
	}
}

func (w *World) lockFree() bool {
	for i := 0; i < 2000; i++ {
		if w.C.TryLock() {
			w.C.Unlock()
			return true
		}
		time.Sleep(time.Millisecond)
	}
	return false
}

var _ = atomic.AddInt64
