package ctlsim

import (
	"encoding/json"
	"fmt"
	"os"
	"runtime"
	"strconv"
	"strings"
	"sync"
	"sync/atomic"
	"time"

	"github.com/openebs/jiva/rpc"
	"github.com/openebs/jiva/types"

	"verif/harness/internal/reng"
	"verif/harness/internal/vk"
)

// BringUp establishes nRW replicas in RW (and optionally one WO) through the
// real API: register -> start signal -> Start -> AddReplica -> file sync -> verify.
func (w *World) BringUp(nRW int, wantWO bool) bool {
	var fs []*Fake
	for i := 0; i < w.RF; i++ {
		fs = append(fs, w.NewFake(1))
	}
	var leader *Fake
	for _, f := range fs {
		w.Register(f, "closed")
		w.Fac.mu.Lock()
		for _, s := range w.Fac.Signals {
			if s.Action == "start" && s.Err == "" {
				leader = w.Fakes["tcp://"+s.Target+":9502"]
			}
		}
		w.Fac.mu.Unlock()
		if leader != nil {
			break
		}
	}
	if leader == nil {
		w.Fail("C09", "bringup:no-start-signal", "all replicas registered but no start signal was sent")
		return false
	}
	if err := w.Start(leader); err != nil {
		w.Fail("C09", "bringup:start-refused", "the signalled replica could not start the volume: "+err.Error())
		return false
	}
	w.CheckSettled("start")
	n := 1
	for _, f := range fs {
		if w.Dead || f == leader {
			continue
		}
		if n >= nRW {
			if wantWO {
				w.poisonFake(f)
				if err := w.Add(f); err != nil {
					w.Fail("C18", "bringup:add-refused", err.Error())
					return false
				}
				w.CheckSettled("add")
				wantWO = false
			}
			continue
		}
		if !w.AddSynced(f) {
			return false
		}
		n++
	}
	return !w.Dead
}

func (w *World) poisonFake(f *Fake) {
	f.mu.Lock()
	for i := range f.Data {
		f.Data[i] = poison
	}
	f.mu.Unlock()
}

// AddSynced adds f, synchronises it and has the controller verify it.
func (w *World) AddSynced(f *Fake) bool {
	w.poisonFake(f)
	if err := w.Add(f); err != nil {
		w.Fail("C18", "add-refused", fmt.Sprintf("AddReplica(%s) refused: %v; %s", f.Addr, err, w.Describe()))
		return false
	}
	w.CheckSettled("add")
	if w.Dead {
		return false
	}
	if !w.SyncFrom(f) {
		return false
	}
	if err := w.Verify(f); err != nil {
		w.Fail("C18", "verify-refused", fmt.Sprintf("VerifyRebuildReplica(%s) refused after a complete sync: %v", f.Addr, err))
		return false
	}
	w.CheckSettled("verify")
	return !w.Dead
}

// faultAssignment draws one outcome per attached replica. For up to three
// attached replicas the 6^n space is walked round-robin by idx; above that it
// is sampled with forced corner cases.
func (w *World) faultAssignment(kind string, idx int) map[*Fake]Outcome {
	fs, modes := w.Attached()
	var live []*Fake
	for _, f := range fs {
		if modes[f] != types.ERR {
			live = append(live, f)
		}
	}
	out := map[*Fake]Outcome{}
	n := len(live)
	if n == 0 {
		return out
	}
	nOut := 6
	if n <= 3 {
		x := idx
		for _, f := range live {
			out[f] = Outcome(x % nOut)
			x /= nOut
		}
		return out
	}
	switch w.R.Intn(6) {
	case 0: // exactly half fail
		for i, f := range live {
			if i < n/2 {
				out[f] = Outcome(1 + w.R.Intn(5))
			}
		}
	case 1: // the RW ones fail, WO succeeds
		for _, f := range live {
			if modes[f] == types.RW {
				out[f] = Outcome(1 + w.R.Intn(5))
			}
		}
	case 2: // all fail
		for _, f := range live {
			out[f] = Outcome(1 + w.R.Intn(5))
		}
	case 3: // all but one fail
		keep := w.R.Intn(n)
		for i, f := range live {
			if i != keep {
				out[f] = Outcome(1 + w.R.Intn(5))
			}
		}
	default:
		for _, f := range live {
			if w.R.Chance(30) {
				out[f] = Outcome(1 + w.R.Intn(5))
			}
		}
	}
	return out
}

// readSweep issues |readers| consecutive reads so that every cursor position serves once.
func (w *World) readSweep() {
	st := w.C.VerifState()
	n := len(st.Readers)
	servedBefore := map[*Fake]int{}
	for _, f := range w.Order {
		servedBefore[f] = f.ReadsServed
	}
	for i := 0; i < n && !w.Dead; i++ {
		o, l := w.RandRange()
		w.IO("read", o, l, nil)
	}
	if w.Dead || n == 0 {
		return
	}
	for _, a := range st.Readers {
		f := w.Fakes[a]
		if f == nil {
			continue // a reader slot that names no replica: C18's clause, evaluated at the settled point
		}
		if f.ReadsServed == servedBefore[f] {
			w.Res.Count("read_sweeps_where_an_RW_replica_did_not_serve", 1)
		}
	}
	w.Res.Count("read_sweeps", 1)
}

// RunIO is the I/O-with-faults scenario behind C02, C04, C05 (and the
// controller part of C01/C16).
func RunIO(w *World, idx int) {
	r := w.R
	quorum := w.RF/2 + 1
	nRW := r.Range(quorum, w.RF)
	wantWO := nRW < w.RF && r.Chance(60)
	w.Cfg = map[string]interface{}{"rf": w.RF, "rw": nRW, "wo": wantWO, "scenario": "io"}
	if !w.BringUp(nRW, wantWO) {
		return
	}
	nops := r.Range(10, 40)
	for i := 0; i < nops && !w.Dead; i++ {
		st := w.C.VerifState()
		rw := modeCount(st, types.RW)
		if rw == 0 {
			break
		}
		if rw < quorum || (len(st.Replicas) < w.RF && r.Chance(35)) {
			// a replacement replica arrives (fresh address), rebuilds and is verified
			if modeCount(st, types.WO) == 0 && len(st.Replicas) < w.RF {
				f := w.NewFake(1)
				if r.Chance(25) {
					w.poisonFake(f)
					if w.Add(f) != nil {
						w.Fail("C18", "add-refused", "AddReplica refused: "+w.Describe())
					}
					w.CheckSettled("add")
				} else {
					w.AddSynced(f)
				}
				continue
			}
			if modeCount(st, types.WO) == 1 {
				for _, rp := range st.Replicas {
					if rp.Mode == types.WO {
						f := w.Fakes[rp.Address]
						if w.SyncFrom(f) {
							if err := w.Verify(f); err != nil {
								w.Fail("C18", "verify-refused", err.Error())
							}
							w.CheckSettled("verify")
						}
					}
				}
				continue
			}
			if rw < quorum {
				break
			}
		}
		// every RW replica is lost while a replica is still rebuilding; a late verify request arrives
		if modeCount(st, types.WO) == 1 && r.Chance(7) {
			fs, modes := w.Attached()
			for _, f := range fs {
				if modes[f] == types.RW {
					w.MonitorFail(f, true)
				}
			}
			w.CheckSettled("all-RW-lost")
			w.OrphanVerify()
			break
		}
		kind := []string{"write", "write", "write", "read", "sync", "unmap"}[r.Intn(6)]
		if w.Prop == "C04" && r.Chance(45) {
			kind = "read"
		}
		// a replica marked failed by a control-plane call (snapshot) or by the operator is detached asynchronously
		if r.Chance(5) {
			if fs, modes := w.Attached(); len(fs) > 1 {
				f := fs[r.Intn(len(fs))]
				if modes[f] == types.RW && r.Bool() {
					f.mu.Lock()
					f.SnapFail = true
					f.mu.Unlock()
					w.rec(Step{K: "snapshot", Note: "fails on " + f.Addr})
					w.C.Snapshot(fmt.Sprintf("io%d", i))
					f.mu.Lock()
					f.SnapFail = false
					f.mu.Unlock()
				} else {
					w.rec(Step{K: "setmode", Addr: f.Addr, Note: "ERR"})
					w.C.SetReplicaMode(f.Addr, types.ERR)
				}
				// reads issued right away must already avoid it
				w.readSweep()
				w.CheckSettled("marked-ERR")
				continue
			}
		}
		o, l := w.RandRange()
		var faults map[*Fake]Outcome
		if r.Chance(55) {
			faults = w.faultAssignment(kind, idx*41+i*7+r.Intn(6))
		}
		w.IO(kind, o, l, faults)
		w.CheckSettled(kind)
		if w.Dead {
			break
		}
		if kind != "read" || len(faults) > 0 {
			w.readSweep()
		}
		if r.Chance(15) || (w.Prop == "C01" && r.Chance(50)) {
			w.RangeCheck()
		}
		if r.Chance(6) || (w.Prop == "C16" && r.Chance(40)) {
			w.ResizeOp()
		}
		hang := w.Net && i == nops/2 && (w.Prop == "C15" || w.Prop == "C05")
		if r.Chance(8) || hang {
			fs, modes := w.Attached()
			if len(fs) > 0 {
				f := fs[r.Intn(len(fs))]
				if modes[f] != types.ERR {
					w.forceHang = hang
					w.MonitorFail(f, r.Bool())
					w.CheckSettled("monitorfail")
				}
			}
		}
		if i%5 == 4 {
			w.CheckImages()
		}
	}
	w.OrphanVerify()
	w.CheckImages()
	// final full read through every cursor position
	st := w.C.VerifState()
	for i := 0; i < len(st.Readers) && !w.Dead && !st.ReadOnly; i++ {
		w.IO("read", 0, w.Size, nil)
	}
}

// ResizeOp exercises Controller.Resize (C16, controller side).
func (w *World) ResizeOp() {
	if w.Dead {
		return
	}
	st := w.C.VerifState()
	calls := map[*Fake]int{}
	for _, f := range w.Order {
		f.mu.Lock()
		calls[f] = len(f.Calls)
		f.mu.Unlock()
	}
	r := w.R
	kind := r.Intn(4)
	var size int64
	name := "vol1"
	switch kind {
	case 0:
		size = st.Size + int64(r.Range(1, 8))*4096
	case 1:
		size = st.Size - 4096
	case 2:
		size = st.Size
	case 3:
		size = st.Size + 4096
		name = "other"
	}
	s := w.rec(Step{K: "resize", Len: size, Note: name})
	// the size is a string in the API: plain bytes or with a (binary) unit suffix
	str := strconv.FormatInt(size, 10)
	if size%1024 == 0 {
		switch r.Intn(4) {
		case 1:
			str = fmt.Sprintf("%dk", size/1024)
		case 2:
			str = fmt.Sprintf("%dKiB", size/1024)
		case 3:
			if size%(1<<20) == 0 {
				str = fmt.Sprintf("%dm", size>>20)
			} else {
				str = fmt.Sprintf("%dkb", size/1024)
			}
		}
	}
	s.Note = name + " size=" + str
	// a growth in which one replica (not the only RW one) fails its own resize: it alone must be isolated
	var failing *Fake
	if kind == 0 && r.Chance(60) {
		var live []*Fake
		nrw := 0
		for _, rp := range st.Replicas {
			if rp.Mode != types.ERR {
				live = append(live, w.Fakes[rp.Address])
			}
			if rp.Mode == types.RW {
				nrw++
			}
		}
		if len(live) >= 2 {
			f := live[r.Intn(len(live))]
			rwLeft := nrw
			for _, rp := range st.Replicas {
				if rp.Address == f.Addr && rp.Mode == types.RW {
					rwLeft--
				}
			}
			if rwLeft >= 1 {
				failing = f
				f.mu.Lock()
				f.ResizeFail = true
				f.mu.Unlock()
				s.Note += " (resize fails on " + f.Addr + ")"
				w.Res.Count("controller_resizes_with_one_replica_failing", 1)
			}
		}
	}
	err := w.C.Resize(name, str)
	w.Res.Count("controller_resizes", 1)
	if failing != nil {
		failing.mu.Lock()
		failing.ResizeFail = false
		failing.mu.Unlock()
		w.Settle()
		mid := w.C.VerifState()
		for _, rp := range mid.Replicas {
			if rp.Address == failing.Addr && rp.Mode != types.ERR {
				w.FailAny([]string{"C16", "C05"}, "resize:replica-that-failed-its-resize-kept:"+string(rp.Mode), fmt.Sprintf("%s failed its resize to %s (it still has %d bytes) but is kept as %s in a volume of %d bytes: %s", failing.Addr, str, failing.Size, rp.Mode, mid.Size, digest(mid, true)))
				return
			}
		}
		for _, rp := range st.Replicas {
			if rp.Address == failing.Addr || rp.Mode == types.ERR {
				continue
			}
			kept := false
			for _, q := range mid.Replicas {
				if q.Address == rp.Address && q.Mode == rp.Mode {
					kept = true
				}
			}
			if !kept {
				w.FailAny([]string{"C16", "C05"}, "resize:healthy-replica-isolated-instead", fmt.Sprintf("%s resized fine but is no longer attached as %s after %s failed its resize: %s", rp.Address, rp.Mode, failing.Addr, digest(mid, true)))
				return
			}
		}
		// what the clauses below look at: the membership without the isolated replica
		var rest []types.Replica
		for _, rp := range st.Replicas {
			if rp.Address != failing.Addr {
				rest = append(rest, rp)
			}
		}
		st.Replicas = rest
	}
	post := w.C.VerifState()
	if kind != 0 {
		if err == nil {
			w.Fail("C16", []string{"", "resize:shrink-accepted", "resize:equal-accepted", "resize:wrong-name-accepted"}[kind], fmt.Sprintf("Controller.Resize(%s,%d) accepted on %d bytes", name, size, st.Size))
			return
		}
		s.Res = "refused"
		if post.Size != st.Size {
			w.Fail("C16", "resize:refused-but-size-changed", fmt.Sprintf("size %d -> %d", st.Size, post.Size))
			return
		}
		for _, f := range w.Order {
			f.mu.Lock()
			for _, c := range f.Calls[calls[f]:] {
				if c.Name == "Resize" {
					f.mu.Unlock()
					w.Fail("C16", "resize:refused-but-replica-resized", fmt.Sprintf("refused resize reached %s", f.Addr))
					return
				}
			}
			f.mu.Unlock()
		}
		return
	}
	if err != nil {
		s.Res = "err: " + err.Error()
		if modeCount(st, types.RW) > 0 {
			w.Fail("C16", "resize:grow-refused", fmt.Sprintf("growth %d -> %d refused: %v", st.Size, size, err))
		}
		return
	}
	if post.Size != size {
		w.Fail("C16", "resize:size-not-updated", fmt.Sprintf("controller size %d after growth to %d", post.Size, size))
		return
	}
	for _, rp := range st.Replicas {
		if rp.Mode != types.ERR && w.Fakes[rp.Address].Size != size {
			w.Fail("C16", "resize:replica-not-resized", fmt.Sprintf("%s still has %d bytes", rp.Address, w.Fakes[rp.Address].Size))
			return
		}
	}
	w.Front.mu.Lock()
	fsz := w.Front.Size
	w.Front.mu.Unlock()
	if fsz != size {
		w.Fail("C16", "resize:frontend-not-resized", fmt.Sprintf("frontend size %d", fsz))
		return
	}
	w.Size = size
	w.Acked = append(w.Acked, make([]uint32, size/512-int64(len(w.Acked)))...)
	// the new range is usable
	if !post.ReadOnly {
		w.IO("write", size-1024, 1024, nil)
		w.IO("read", size-4096, 4096, nil)
	}
}

// RunMembership is the membership random walk behind C03 and C18.
func RunMembership(w *World, idx int) {
	r := w.R
	w.Cfg = map[string]interface{}{"rf": w.RF, "scenario": "membership"}
	nRW := r.Range(1, w.RF)
	if !w.BringUp(nRW, r.Chance(40)) {
		return
	}
	nops := r.Range(10, 40)
	if w.Prop == "C03" {
		nops = r.Range(4, 14)
	}
	fiat := false
	for i := 0; i < nops && !w.Dead; i++ {
		st := w.C.VerifState()
		fs, modes := w.Attached()
		k := r.Pick([]int{14, 10, 10, 10, 8, 8, 14, 8, 6, 6, 6, 7})
		after := ""
		switch k {
		case 0: // a new replica arrives
			f := w.NewFake(int64(r.Range(1, 5)))
			w.poisonFake(f)
			failing := ""
			if r.Chance(20) {
				// one step of the admission fails on the new replica: the add must fail as a whole and leave no trace
				failing = []string{"SetReplicaMode", "Snapshot", "RemainSnapshots", "Size", "SectorSize", "GetRevisionCounter", "SetRebuilding"}[r.Intn(7)]
				f.mu.Lock()
				f.FailNextMgmt = failing
				f.mu.Unlock()
				w.rec(Step{K: "next-admission-step-fails", Addr: f.Addr, Note: failing})
			}
			err := w.Add(f)
			f.mu.Lock()
			consumed := failing != "" && f.FailNextMgmt == ""
			f.FailNextMgmt = ""
			f.mu.Unlock()
			after = "add"
			if consumed {
				w.Res.Count("admission_step_failures:"+failing, 1)
				after = "add-with-failing-" + failing
				if _, m := w.Attached(); err != nil && m[f] != "" {
					w.FailAny([]string{"C18", "C05"}, "failed-add-left-replica-listed:"+failing, fmt.Sprintf("AddReplica(%s) returned %q because its %s call failed, yet the replica is listed as %s: %s", f.Addr, err.Error(), failing, m[f], w.Describe()))
				}
			}
			if err == nil && modeCount(st, types.WO) == 0 && len(st.Replicas) >= w.RF {
				w.Fail("C18", "add-accepted-beyond-RF", "AddReplica accepted with RF replicas attached and nothing to take over: "+digest(st, true))
			}
		case 1: // sync + verify the WO replica
			for _, f := range fs {
				if modes[f] == types.WO && w.SyncFrom(f) {
					scripted := r.Chance(25) || (w.Net && w.Prop == "C10" && r.Chance(35))
					if scripted && w.Net && r.Bool() {
						// the request of the last verification step loses its connection before it is answered
						f.mu.Lock()
						f.CutNextREST = "setrevisioncounter"
						f.mu.Unlock()
						w.rec(Step{K: "next-set-revision-counter-request-loses-its-connection", Addr: f.Addr})
						w.Res.Count("verify_last_step_connection_cuts_scripted", 1)
					} else if scripted {
						// the last step of the verification fails on the replica
						f.mu.Lock()
						f.RevFail = true
						f.mu.Unlock()
						w.rec(Step{K: "next-set-revision-counter-fails", Addr: f.Addr})
						w.Res.Count("verify_last_step_failures_scripted", 1)
					}
					err := w.Verify(f)
					f.mu.Lock()
					f.RevFail = false
					f.CutNextREST = ""
					f.mu.Unlock()
					after = "verify"
					if err != nil && !w.Dead {
						if _, m := w.Attached(); m[f] == types.RW {
							f.mu.Lock()
							rev := f.Rev
							f.mu.Unlock()
							w.FailAny([]string{"C18", "C07", "C10"}, "verify-failed-but-listed-RW", fmt.Sprintf("VerifyRebuildReplica(%s) returned %q (its revision counter is still %d, the step that equalises it failed), yet the controller lists the replica RW", f.Addr, err.Error(), rev))
						}
					}
				}
			}
		case 2: // explicit removal
			if len(fs) > 0 {
				w.Remove(fs[r.Intn(len(fs))])
				after = "remove"
			}
		case 3: // monitor failure
			if len(fs) > 0 {
				f := fs[r.Intn(len(fs))]
				if modes[f] != types.ERR {
					w.MonitorFail(f, r.Bool())
					after = "monitorfail"
				}
			}
		case 4: // operator: set mode ERR
			if len(fs) > 0 {
				f := fs[r.Intn(len(fs))]
				w.rec(Step{K: "setmode", Addr: f.Addr, Note: "ERR"})
				w.C.SetReplicaMode(f.Addr, types.ERR)
				after = "setmode-ERR"
			}
		case 5: // operator: set mode RW (declares the replica up to date)
			if len(fs) > 0 {
				f := fs[r.Intn(len(fs))]
				if modes[f] == types.WO {
					fiat = true
				}
				if modes[f] != types.RW {
					w.OperatorRW = true
				}
				w.rec(Step{K: "setmode", Addr: f.Addr, Note: "RW"})
				w.C.SetReplicaMode(f.Addr, types.RW)
				after = "setmode-RW"
			}
		case 6: // I/O with faults
			kind := []string{"write", "read", "sync", "unmap"}[r.Intn(4)]
			if st.ReadOnly && w.Prop != "C03" {
				kind = "read" // a refused mutation sleeps 1 s by design; C03 pays for those
			}
			o, l := w.RandRange()
			var faults map[*Fake]Outcome
			if r.Chance(50) {
				faults = w.faultAssignment(kind, idx*13+i)
			}
			if fiat {
				// data clauses do not apply once an operator promoted by fiat; membership clauses do
				w.ioNoData(kind, o, l, faults)
			} else {
				w.IO(kind, o, l, faults)
			}
			after = kind
		case 7: // duplicates and unknown addresses
			switch r.Intn(5) {
			case 0:
				if len(fs) > 0 {
					f := fs[r.Intn(len(fs))]
					s := w.rec(Step{K: "add-duplicate", Addr: f.Addr})
					if err := w.C.AddReplica(f.Addr); err == nil {
						w.Fail("C18", "duplicate-add-accepted", "AddReplica of an attached address accepted")
					} else {
						s.Res = err.Error()
					}
				}
			case 1:
				w.rec(Step{K: "remove-unknown"})
				w.C.RemoveReplica("tcp://127.250.250.250:9502")
			case 2:
				w.rec(Step{K: "setmode-unknown"})
				w.C.SetReplicaMode("tcp://127.250.250.250:9502", types.ERR)
				w.C.SetReplicaMode("tcp://127.250.250.250:9502", types.RW)
			case 3:
				s := w.rec(Step{K: "setmode-bogus"})
				if len(fs) > 0 {
					if err := w.C.SetReplicaMode(fs[0].Addr, types.Mode("bogus")); err == nil {
						w.Fail("C18", "bogus-mode-accepted", "SetReplicaMode(bogus) accepted")
					} else {
						s.Res = err.Error()
					}
				}
			case 4:
				s := w.rec(Step{K: "verify-unknown"})
				if err := w.C.VerifyRebuildReplica("tcp://127.250.250.250:9502"); err == nil {
					w.Fail("C18", "verify-unknown-accepted", "VerifyRebuildReplica of an unknown address accepted")
				} else {
					s.Res = err.Error()
				}
			}
			after = "dup-unknown"
		case 8: // snapshot, possibly failing on one replica
			if len(fs) > 0 && r.Chance(50) {
				f := fs[r.Intn(len(fs))]
				f.mu.Lock()
				f.SnapFail = true
				f.mu.Unlock()
			}
			s := w.rec(Step{K: "snapshot"})
			_, err := w.C.Snapshot(fmt.Sprintf("m%d", i))
			if err != nil {
				s.Res = err.Error()
			}
			for _, f := range fs {
				f.mu.Lock()
				f.SnapFail = false
				f.mu.Unlock()
			}
			after = "snapshot"
		case 9: // late registration / start requests while running
			if len(fs) > 0 {
				f := fs[r.Intn(len(fs))]
				w.Register(f, "closed")
				w.rec(Step{K: "start-again", Addr: f.Addr})
				w.C.Start(f.Addr)
				after = "late-register-start"
			}
		case 11: // two replicas ask to be added at the same time (what the add signal after Start provokes)
			a, b := w.NewFake(int64(r.Range(1, 3))), w.NewFake(int64(r.Range(1, 3)))
			w.poisonFake(a)
			w.poisonFake(b)
			w.Fac.mu.Lock()
			w.Fac.CreateDelay = time.Duration(r.Range(1, 3)) * time.Millisecond
			w.Fac.mu.Unlock()
			w.rec(Step{K: "concurrent-add", Addr: a.Addr + "," + b.Addr})
			var wg sync.WaitGroup
			for _, f := range []*Fake{a, b} {
				wg.Add(1)
				go func(f *Fake) {
					defer wg.Done()
					w.C.AddReplica(f.Addr)
				}(f)
			}
			wg.Wait()
			w.Fac.mu.Lock()
			w.Fac.CreateDelay = 0
			w.Fac.mu.Unlock()
			w.noteAttach()
			w.Res.Count("concurrent_adds", 1)
			after = "concurrent-add"
		case 10: // a detached replica restarts and comes back
			for _, f := range w.Order {
				if _, att := modes[f]; !att && f.conn != nil {
					w.Restart(f)
					w.Add(f)
					after = "re-add"
					break
				}
			}
		}
		if after == "" {
			continue
		}
		w.CheckSettled(after)
		if w.Dead {
			break
		}
		// C03 probe: mutating I/O is accepted iff not read-only (bounded: right after settling)
		if w.Prop == "C03" {
			st = w.C.VerifState()
			kind := []string{"write", "sync", "unmap"}[r.Intn(3)]
			o, l := w.RandRange()
			if st.ReadOnly {
				w.IO(kind, o, l, nil) // costs the built-in 1 s
			} else {
				if fiat {
					w.ioNoData(kind, o, l, nil)
				} else {
					w.IO(kind, o, l, nil)
				}
				if !w.Dead && w.Log[len(w.Log)-1].Res != "ack" {
					w.Fail("C03", "quorum-present-but-write-refused:"+after, fmt.Sprintf("after %s settled the volume has a quorum (%s) but a fault-free %s was not accepted: %s", after, digest(st, false), kind, w.Log[len(w.Log)-1].Res))
				}
			}
			w.CheckSettled("probe")
		}
	}
	if !fiat {
		w.CheckImages()
	}
}

// ioNoData performs an I/O without the data clauses (used after an operator
// override made "RW" stop meaning "verified").
func (w *World) ioNoData(kind string, off, length int64, faults map[*Fake]Outcome) {
	saveA, saveM := w.Acked, w.Maybe
	w.Acked = make([]uint32, len(saveA))
	w.Maybe = map[int64][]uint32{}
	prop := w.Prop
	if kind == "read" {
		// membership clauses of a read still apply; data comparison is skipped by making every stamp acceptable
		w.rec(Step{K: "read-nodata", Off: off, Len: length})
		buf := make([]byte, length)
		w.C.ReadAt(buf, off)
	} else {
		w.IO(kind, off, length, faults)
	}
	w.Prop = prop
	w.Acked, w.Maybe = saveA, saveM
}

// RunSnapshots is the C13 scenario: all replicas RW, concurrent writers and
// snapshot requests, then per-replica failures, departures and re-additions.
func RunSnapshots(w *World, idx int) {
	r := w.R
	w.Cfg = map[string]interface{}{"rf": w.RF, "scenario": "snapshots"}
	if !w.BringUp(w.RF, false) {
		return
	}
	for _, f := range w.Order {
		f.Jitter = r.Range(0, 20)
	}
	rounds := r.Range(2, 5)
	snapNo := 0
	for round := 0; round < rounds && !w.Dead; round++ {
		st := w.C.VerifState()
		if modeCount(st, types.RW) != w.RF {
			// refused unless all RF are RW
			s := w.rec(Step{K: "snapshot", Note: "not-all-RW"})
			name, err := w.C.Snapshot(fmt.Sprintf("x%d", snapNo))
			snapNo++
			if err == nil {
				w.Fail("C13", "snapshot-accepted-without-all-RW", fmt.Sprintf("snapshot %s accepted with %d of %d replicas RW", name, modeCount(st, types.RW), w.RF))
				return
			}
			s.Res = err.Error()
			w.Res.Count("snapshot_refusals_observed", 1)
			// restore full strength
			for modeCount(w.C.VerifState(), types.RW) < w.RF && !w.Dead {
				cur := w.C.VerifState()
				if len(cur.Replicas) >= w.RF {
					break
				}
				if !w.AddSynced(w.NewFake(1)) {
					return
				}
			}
			continue
		}
		// concurrent phase: writers race with snapshot requests
		var wg sync.WaitGroup
		stop := make(chan struct{})
		nw := r.Range(2, 4)
		base := w.NextWID
		w.NextWID += uint32(nw * 1000)
		for g := 0; g < nw; g++ {
			wg.Add(1)
			seed := r.U64()
			go func(g int) {
				defer wg.Done()
				rr := vk.NewRand(seed)
				id := base + uint32(g*1000)
				for k := 0; k < 400; k++ {
					select {
					case <-stop:
						return
					default:
					}
					secs := int(w.Size / 512)
					o := rr.Intn(secs - 8)
					buf := reng.Payload(int64(o)*512, int64(rr.Range(1, 8))*512, id)
					id++
					w.C.WriteAt(buf, int64(o)*512)
				}
			}(g)
		}
		nsnap := r.Range(1, 3)
		var names []string
		for k := 0; k < nsnap; k++ {
			name := fmt.Sprintf("x%d", snapNo)
			snapNo++
			if _, err := w.SnapshotOp(name, "concurrent with writers", nil, nil); err != nil {
				if w.Dead {
					close(stop)
					wg.Wait()
					return
				}
			} else {
				names = append(names, name)
				w.Res.Count("snapshots_under_concurrent_writes", 1)
			}
		}
		close(stop)
		wg.Wait()
		// (i) same prefix of the write stream on every replica
		for _, name := range names {
			var ref map[uint32]bool
			var refAddr string
			for _, f := range w.Order {
				f.mu.Lock()
				set := map[uint32]bool{}
				found := false
				for _, e := range f.Log {
					if e.Kind == "s" && e.Name == name {
						found = true
						break
					}
					if e.Kind == "w" && e.ID >= base {
						// only this round's writes: a replica added later has no log of earlier ones
						set[e.ID] = true
					}
				}
				f.mu.Unlock()
				if !found {
					continue
				}
				w.Res.Count("snapshot_cuts_compared", 1)
				if ref == nil {
					ref, refAddr = set, f.Addr
					continue
				}
				if len(set) != len(ref) {
					w.Fail("C13", "snapshot-not-point-in-time", fmt.Sprintf("snapshot %s: %s applied %d writes before it, %s applied %d", name, refAddr, len(ref), f.Addr, len(set)))
					return
				}
				for id := range set {
					if !ref[id] {
						w.Fail("C13", "snapshot-not-point-in-time", fmt.Sprintf("snapshot %s: write#%d is before the snapshot on %s but after it on %s", name, id, f.Addr, refAddr))
						return
					}
				}
			}
		}
		// concurrent writes are not tracked by the data model
		for i := range w.Acked {
			w.Acked[i] = 0
		}
		w.CheckSettled("snapshot")
		if w.Dead {
			return
		}
		// failure phase
		fs, _ := w.Attached()
		switch r.Intn(6) {
		case 5: // a replica is removed while a snapshot request is in flight (slow REST lookup)
			if len(fs) < 2 {
				break
			}
			for _, f := range fs {
				atomic.StoreInt32(&f.GetDelayMs, int32(r.Range(30, 80)))
			}
			g := fs[r.Intn(len(fs))]
			lead := time.Duration(r.Range(0, 25)) * time.Millisecond
			done := make(chan struct{})
			go func() {
				defer close(done)
				time.Sleep(lead)
				w.C.RemoveReplica(g.Addr)
			}()
			w.SnapshotOp(fmt.Sprintf("x%d", snapNo), "races with removal of "+g.Addr, nil, g)
			snapNo++
			<-done
			for _, f := range fs {
				atomic.StoreInt32(&f.GetDelayMs, 0)
			}
			w.rec(Step{K: "remove", Addr: g.Addr, Note: "concurrent with the snapshot"})
			w.Res.Count("snapshot_vs_removal_races", 1)
			if w.Dead {
				return
			}
			w.CheckSettled("remove")
		case 0: // snapshot fails on one replica
			f := fs[r.Intn(len(fs))]
			f.mu.Lock()
			f.SnapFail = true
			f.mu.Unlock()
			w.SnapshotOp(fmt.Sprintf("x%d", snapNo), "fails on "+f.Addr, f, nil)
			snapNo++
			w.Res.Count("snapshot_failures_scripted", 1)
			if w.Dead {
				return
			}
			w.CheckSettled("snapshot-failure")
		case 1: // set-checkpoint fails on one (healthy, staying) replica at the next recording
			if len(fs) < 2 {
				break
			}
			w.C.Snapshot(fmt.Sprintf("x%d", snapNo))
			snapNo++
			// recording happens when the volume is back at full strength: one leaves, a new one is rebuilt
			g := fs[r.Intn(len(fs))]
			w.Remove(g)
			w.CheckSettled("remove")
			if w.Dead {
				return
			}
			var f *Fake
			for _, c := range fs {
				if c != g && (f == nil || r.Bool()) {
					f = c
				}
			}
			f.mu.Lock()
			f.CpFail = true
			f.mu.Unlock()
			w.rec(Step{K: "next-set-checkpoint-fails", Addr: f.Addr})
			w.Res.Count("set_checkpoint_failures_scripted", 1)
			w.AddSynced(w.NewFake(1))
			f.mu.Lock()
			f.CpFail = false
			f.mu.Unlock()
		case 2: // a replica leaves
			w.Remove(fs[r.Intn(len(fs))])
			w.CheckSettled("remove")
			if st := w.C.VerifState(); !w.Dead && st.Checkpoint != "" {
				w.Fail("C13", "checkpoint-not-withdrawn:remove", "checkpoint still "+st.Checkpoint+" after a replica left")
			}
		case 3: // a replica dies
			w.MonitorFail(fs[r.Intn(len(fs))], true)
			w.CheckSettled("monitorfail")
			if st := w.C.VerifState(); !w.Dead && st.Checkpoint != "" {
				w.Fail("C13", "checkpoint-not-withdrawn:monitorfail", "checkpoint still "+st.Checkpoint+" after a replica died")
			}
		case 4:
		}
	}
}

// RunWorker runs `cases` controller histories.
// NetMode makes RunWorker build its worlds over the real backend factory (net.go).
var NetMode bool

func RunWorker(prop string, seed uint64, worker, cases int, out string) error {
	reng.QuietLogs()
	reng.RaiseFdLimit()
	res := vk.NewResult("ctlsim")
	if NetMode {
		// the deadlines of the data connection, through the production knobs
		types.RPCReadTimeout, types.RPCWriteTimeout = time.Second, time.Second
		rpc.SetRPCTimeout()
		res.Count("net_mode_workers", 1)
	}
	jpath := out + ".journal"
	propNo := 0
	fmt.Sscanf(prop, "C%d", &propNo)
	rf := worker%5 + 1
	states := map[string]bool{}
	for c := 0; c < cases; c++ {
		cs := vk.Mix(seed, prop, fmt.Sprint(worker), fmt.Sprint(c))
		r := vk.NewRand(cs)
		j, _ := os.Create(jpath)
		fmt.Fprintf(j, "{\"case\":%d,\"seed\":%d,\"prop\":%q,\"rf\":%d}\n", worker*100000+c, cs, prop, rf)
		size := int64(r.Range(8, 64)) * 4096
		idx := worker*cases + c
		caseRF := rf
		if prop == "C09" && idx%8 == 5 {
			caseRF = 5 // the concurrent re-registration scenario needs a majority left after two deletions
		}
		if prop == "C19" {
			caseRF = 1 // a cloned volume starts with its clone replica alone
		}
		mk := NewWorld
		if NetMode {
			mk = NewNetWorld
		}
		w := mk(prop, caseRF, size, r, res, 20+(propNo*16+worker)%200, (os.Getpid()*7)%250)
		w.Seed, w.Case, w.Journal = cs, worker*100000+c, j
		if !runWatched(w, prop, idx) {
			// the controller no longer returns from a call: nothing of this process can be trusted to end (Close
			// would wait for the same lock); what was observed is written and the worker ends here
			res.Cases++
			res.Counters["cases_not_run_after_a_wedged_controller"] += int64(cases - c - 1)
			j.Close()
			res.WriteFile(out)
			os.Remove(jpath)
			os.Exit(0)
		}
		w.Close()
		j.Close()
		res.Cases++
		for s := range w.States {
			states[s] = true
		}
		if w.nFaultOps > 0 || len(w.States) > 2 || w.NonTrivial {
			res.Sig(caseSig(w))
		}
		res.Sample(map[string]interface{}{"config": w.Cfg, "steps": headSteps(w.Log, 30)}, 2)
		for _, n := range w.notes {
			if len(res.Notes) < 10 {
				res.Notes = append(res.Notes, n)
			}
		}
		if c%50 == 49 {
			res.WriteFile(out)
		}
	}
	res.Counters["distinct_membership_states"] = int64(len(states))
	os.Remove(jpath)
	return res.WriteFile(out)
}

// runWatched runs one history under a progress watchdog. Every step of a history is bounded (rpc deadlines of 1 s
// in net mode, scripted delays of a few seconds, settle waits of 5 s); a history whose current step has not ended
// after 150 s is stuck. If a request for the controller's lock then cannot be served within 20 s either, the
// controller is wedged - a call into it never returns while it holds its lock, so neither I/O nor any management
// request is served again - which is reported against the properties that promise progress after a replica
// failure (C05, C03, C15) and released locks (C14). If the lock can be had, the harness itself is stuck:
// inconclusive. Returns false when the history did not end.
func runWatched(w *World, prop string, idx int) bool {
	atomic.StoreInt64(&w.beat, time.Now().UnixNano())
	done := make(chan struct{})
	go func() {
		defer close(done)
		runScenario(w, prop, idx)
	}()
	tick := time.NewTicker(2 * time.Second)
	defer tick.Stop()
	for {
		select {
		case <-done:
			return true
		case <-tick.C:
		}
		if time.Since(time.Unix(0, atomic.LoadInt64(&w.beat))) < 150*time.Second {
			continue
		}
		got := make(chan struct{})
		go func() {
			w.C.Lock()
			w.C.Unlock()
			close(got)
		}()
		steps := append([]Step(nil), w.Log...)
		last := ""
		if len(steps) > 0 {
			b, _ := json.Marshal(steps[len(steps)-1])
			last = string(b)
		}
		select {
		case <-got:
			w.Res.Inconclusive = append(w.Res.Inconclusive, fmt.Sprintf("case %d: no progress for 150 s after step %s although the controller's lock is free (harness stuck)", w.Case, last))
		case <-time.After(20 * time.Second):
			buf := make([]byte, 1<<21)
			stacks := controllerStacks(string(buf[:runtime.Stack(buf, true)]))
			sig, what := "controller-wedged", fmt.Sprintf("step %s has not returned for 150 s and a request for the controller's lock is not served within 20 s: a call into the controller blocks while the lock is held; no I/O or management request will be served again", last)
			hit := false
			for _, p := range []string{"C05", "C03", "C15", "C14"} {
				if p == w.Prop {
					hit = true
				}
			}
			if hit {
				w.Res.Violate(vk.Violation{Property: w.Prop, Signature: sig, What: what, Seed: w.Seed, Case: w.Case,
					Witness: map[string]interface{}{"config": w.Cfg, "steps": steps, "blocked_goroutines": stacks}})
			} else {
				w.Res.Count("other_property_observation:C05:"+sig, 1)
				if len(w.Res.Notes) < 10 {
					w.Res.Notes = append(w.Res.Notes, fmt.Sprintf("case %d observed C05:%s (not the property under check): %s", w.Case, sig, what))
				}
			}
		}
		return false
	}
}

// controllerStacks keeps the goroutines of a dump that are inside jiva's controller or backend packages.
func controllerStacks(dump string) []string {
	var out []string
	for _, g := range strings.Split(dump, "\n\n") {
		if strings.Contains(g, "openebs/jiva/controller") || strings.Contains(g, "openebs/jiva/backend") {
			if len(g) > 1500 {
				g = g[:1500]
			}
			out = append(out, g)
			if len(out) >= 12 {
				break
			}
		}
	}
	return out
}

func runScenario(w *World, prop string, idx int) {
	switch prop {
	case "C03", "C18", "C10":
		if prop == "C18" && idx%10 == 2 {
			RunStaleMonitor(w, idx)
			return
		}
		if prop == "C03" && idx%4 == 3 {
			RunQuorumLossRace(w, idx)
			return
		}
		RunMembership(w, idx)
	case "C06":
		RunRevert(w, idx)
	case "C13":
		RunSnapshots(w, idx)
	case "C19":
		RunCloneStart(w, idx)
	case "C09":
		if idx%8 == 5 {
			RunElectionRace(w, idx)
			return
		}
		RunElection(w, idx)
	default:
		if (prop == "C02" || prop == "C04") && idx%10 == 9 {
			RunConcurrent(w, idx)
			return
		}
		if (prop == "C05" || prop == "C02") && idx%10 == 2 {
			RunStaleMonitor(w, idx)
			return
		}
		if (prop == "C02" || prop == "C05") && idx%10 == 7 {
			RunRendezvous(w, idx)
			return
		}
		if (prop == "C02" || prop == "C04" || prop == "C05") && idx%10 == 4 {
			RunAddUnderLoad(w, idx)
			return
		}
		RunIO(w, idx)
	}
}

func caseSig(w *World) string {
	h := fmt.Sprint(w.RF)
	for _, s := range w.Log {
		h += s.K
		for _, v := range s.Faults {
			h += v
		}
		h += s.State
	}
	return fmt.Sprintf("%x", vk.Mix(0, h))
}

func headSteps(l []Step, n int) []Step {
	if len(l) > n {
		return l[:n]
	}
	return l
}
