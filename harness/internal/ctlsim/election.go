package ctlsim

import (
	"fmt"
	"sync"
	"time"

	"github.com/openebs/jiva/types"
)

// RunElection is the C09 scenario: registration requests in every order and
// repetition, with revision ties, rebuilding replicas, dead replicas and
// failing start signals; ground truth is the harness's own knowledge of every
// replica's revision, state and liveness.
func RunElection(w *World, idx int) {
	r := w.R
	n := w.RF
	if r.Chance(30) && n > 1 {
		n = r.Range(w.RF/2+1, w.RF) // not everybody shows up
	}
	var fs []*Fake
	revs := []int64{}
	for i := 0; i < n; i++ {
		rev := int64(r.Range(1, 4))
		if r.Chance(30) {
			rev = int64(r.Range(5, 9))
		}
		f := w.NewFake(rev)
		fs = append(fs, f)
		revs = append(revs, rev)
	}
	state := map[*Fake]string{}
	for _, f := range fs {
		state[f] = "closed"
		if r.Chance(20) {
			state[f] = "rebuilding"
		} else if r.Chance(15) {
			state[f] = "dirty"
		}
	}
	w.Cfg = map[string]interface{}{"rf": w.RF, "scenario": "election", "revs": revs}
	// registration order: a permutation (enumerated by idx for small n) followed by repetitions
	order := perm(len(fs), idx, r)
	extra := r.Range(0, 4)
	for i := 0; i < extra; i++ {
		order = append(order, r.Intn(len(fs)))
	}
	lastState := map[string]string{} // ip -> state at its latest registration
	var leader *Fake
	quorum := w.RF/2 + 1
	for step, oi := range order {
		if w.Dead {
			return
		}
		f := fs[oi]
		// faults before this registration
		if r.Chance(12) {
			w.Fac.mu.Lock()
			w.Fac.SignalErr[f.IP] = true
			w.Fac.mu.Unlock()
			w.rec(Step{K: "next-signal-to-fails", Addr: f.IP})
		}
		if leader != nil && r.Chance(15) {
			leader.mu.Lock()
			leader.Alive = false
			leader.mu.Unlock()
			w.rec(Step{K: "leader-dies", Addr: leader.IP})
		}
		if r.Chance(10) {
			// a quorum-type replica (holds no data) registers: it never counts towards the majority of data replicas
			// and is never the one asked to start the volume
			q := w.NewFake(int64(r.Range(1, 9)))
			w.Fac.mu.Lock()
			n0 := len(w.Fac.Signals)
			w.Fac.mu.Unlock()
			w.rec(Step{K: "register-quorum-replica", Addr: q.IP})
			w.C.RegisterReplica(types.RegReplica{Address: q.IP, UUID: q.UUID, RevCount: q.Rev, RepType: "quorum", RepState: "closed", UpTime: time.Second})
			w.Res.Count("quorum_replica_registrations", 1)
			w.Fac.mu.Lock()
			ns := append([]Signal(nil), w.Fac.Signals[n0:]...)
			w.Fac.mu.Unlock()
			if len(ns) > 0 {
				w.Fail("C09", "signal-sent-on-quorum-replica-registration", fmt.Sprintf("registration of quorum-type replica %s made the controller signal %v", q.IP, ns))
				return
			}
		}
		pre := w.C.VerifState()
		w.Fac.mu.Lock()
		nsig := len(w.Fac.Signals)
		nalive := len(w.Fac.Alive)
		w.Fac.mu.Unlock()
		f.mu.Lock()
		alive := f.Alive
		f.mu.Unlock()
		if !alive {
			continue // a dead replica does not register
		}
		w.Register(f, state[f])
		lastState[f.IP] = state[f]
		w.Res.Count("registrations", 1)
		post := w.C.VerifState()
		w.Fac.mu.Lock()
		sigs := append([]Signal(nil), w.Fac.Signals[nsig:]...)
		probed := append([]string(nil), w.Fac.Alive[nalive:]...)
		w.Fac.mu.Unlock()
		// competitors known to the controller when it decided
		known := map[string]bool{f.IP: true}
		for ip := range pre.Registered {
			known[ip] = true
		}
		// a replica the controller itself just found unreachable no longer counts as registered
		for _, ip := range probed {
			if c := w.Fakes["tcp://"+ip+":9502"]; c != nil && ip != f.IP {
				c.mu.Lock()
				dead := !c.Alive
				c.mu.Unlock()
				if dead {
					delete(known, ip)
				}
			}
		}
		for _, s := range sigs {
			if s.Action != "start" {
				continue
			}
			w.Res.Count("start_signals", 1)
			w.NonTrivial = true
			if len(known) < quorum {
				w.Fail("C09", fmt.Sprintf("start-signal-before-majority:RF%d:%d", w.RF, len(known)), fmt.Sprintf("start signalled to %s with %d of %d replicas registered (quorum %d)", s.Target, len(known), w.RF, quorum))
				return
			}
			t := w.Fakes["tcp://"+s.Target+":9502"]
			if t == nil {
				w.Fail("C09", "start-signal-to-unknown", "start signalled to "+s.Target)
				return
			}
			if lastState[s.Target] == "rebuilding" {
				w.Fail("C09", "start-signal-to-rebuilding-replica", fmt.Sprintf("start signalled to %s which registered in state rebuilding", s.Target))
				return
			}
			if s.Err != "" {
				w.Res.Count("start_signals_failed", 1)
				continue
			}
			// a fresh pick (not a repeated signal to the leader already chosen)
			if !(pre.StartSignalled && pre.MaxRevReplica == s.Target) {
				for ip := range known {
					c := w.Fakes["tcp://"+ip+":9502"]
					c.mu.Lock()
					calive, crev := c.Alive, c.Rev
					c.mu.Unlock()
					if ip == s.Target || !calive || lastState[ip] == "rebuilding" {
						continue
					}
					if _, still := post.Registered[ip]; !still && ip != f.IP {
						continue // dropped by the controller in this very request
					}
					if crev > t.Rev {
						w.Fail("C09", "elected-replica-not-most-up-to-date", fmt.Sprintf("start signalled to %s (revision %d) although %s (revision %d) is registered, reachable and not rebuilding; registration step %d of order %v, revisions %v, states %v",
							s.Target, t.Rev, ip, crev, step, order, revs, lastState))
						return
					}
				}
				w.Res.Count("elections_checked", 1)
			}
			leader = t
		}
		if len(sigs) == 0 && len(known) >= quorum && !pre.StartSignalled && lastState[f.IP] != "rebuilding" {
			// bounded progress: with a majority registered and no leader yet, this registration must signal someone
			w.Fail("C09", "no-start-signal-with-majority", fmt.Sprintf("%d of %d registered (quorum %d), no leader, but registration of %s did not signal anyone", len(known), w.RF, quorum, f.IP))
			return
		}
		// (iii) only the signalled replica can start the volume - also not one whose address merely begins like the elected one's
		if post.StartSignalled && r.Chance(30) {
			if look := w.NewFakeAt(post.MaxRevReplica+fmt.Sprint(r.Intn(5)), 1); look != nil {
				s := w.rec(Step{K: "start-by-lookalike-address", Addr: look.Addr})
				err := w.C.Start(look.Addr)
				w.Res.Count("foreign_start_attempts", 1)
				if now := w.C.VerifState(); err == nil || len(now.Replicas) > 0 {
					w.Fail("C09", "start-accepted-from-non-elected:lookalike-address", fmt.Sprintf("Start(%s) accepted (err=%v) although %s was signalled", look.Addr, err, post.MaxRevReplica))
					return
				}
				s.Res = err.Error()
			}
		}
		if post.StartSignalled && r.Chance(50) {
			for _, o := range fs {
				if o.IP != post.MaxRevReplica && o.Alive {
					s := w.rec(Step{K: "start-by-other", Addr: o.Addr})
					err := w.C.Start(o.Addr)
					w.Res.Count("foreign_start_attempts", 1)
					now := w.C.VerifState()
					if err == nil || len(now.Replicas) > 0 {
						w.Fail("C09", "start-accepted-from-non-elected", fmt.Sprintf("Start(%s) accepted (err=%v, %d replicas) although %s was signalled", o.Addr, err, len(now.Replicas), post.MaxRevReplica))
						return
					}
					s.Res = err.Error()
					break
				}
			}
		}
	}
	if leader == nil || !leader.Alive {
		return
	}
	st := w.C.VerifState()
	if !st.StartSignalled || st.MaxRevReplica != leader.IP {
		return
	}
	// the elected replica starts the volume, possibly naming further replicas (multi-address start)
	addrs := []*Fake{leader}
	if r.Chance(50) {
		for _, o := range fs {
			if o != leader && o.Alive && r.Bool() && lastState[o.IP] != "" {
				addrs = append(addrs, o)
			}
		}
	}
	if err := w.Start(addrs...); err != nil {
		// a Start naming a replica that cannot be attached may fail; the single-address start of the elected one must not
		if len(addrs) == 1 {
			w.Fail("C09", "elected-replica-cannot-start", err.Error())
		}
		return
	}
	w.Res.Count("volume_starts", 1)
	w.CheckSettled("start")
	if w.Dead {
		return
	}
	var max int64
	for _, a := range addrs {
		if a.Rev > max {
			max = a.Rev
		}
	}
	post := w.C.VerifState()
	for _, rp := range post.Replicas {
		f := w.Fakes[rp.Address]
		if f.Rev < max && rp.Mode == types.RW {
			w.Fail("C09", "lower-revision-replica-RW-after-start", fmt.Sprintf("%s has revision %d < %d but is RW after start", rp.Address, f.Rev, max))
			return
		}
	}
	// reads only from the up-to-date ones
	for _, a := range addrs {
		// give the stale ones distinguishable content
		if a.Rev < max {
			w.poisonFake(a)
		}
	}
	for i := 0; i < 2*len(addrs) && !w.Dead; i++ {
		if st := w.C.VerifState(); len(st.Readers) == 0 {
			break
		}
		o, l := w.RandRange()
		w.IO("read", o, l, nil)
	}
}

// perm returns the idx-th permutation of 0..n-1 for n<=4 (so that all orders
// are enumerated across cases) and a random one above.
func perm(n, idx int, r interface{ Intn(int) int }) []int {
	p := make([]int, n)
	for i := range p {
		p[i] = i
	}
	if n <= 4 {
		k := idx
		for i := n; i > 1; i-- {
			j := k % i
			k /= i
			p[i-1], p[j] = p[j], p[i-1]
		}
		return p
	}
	for i := n - 1; i > 0; i-- {
		j := r.Intn(i + 1)
		p[i], p[j] = p[j], p[i]
	}
	return p
}

// RunElectionRace: all replicas of an RF-5 volume have registered, the elected
// one dies before it starts the volume, and the others send their periodic
// re-registration at the same moment (replicas retry every 5 s until they are
// signalled). Whichever request is served first finds the leader dead and
// elects again; every start signal from then on must go to the live replica
// with the highest revision count - the registration table did not change,
// so the ground truth does not depend on the order in which the concurrent
// requests are served.
func RunElectionRace(w *World, idx int) {
	r := w.R
	n := w.RF
	w.Cfg = map[string]interface{}{"rf": w.RF, "scenario": "election-race"}
	revs := r.Perm(9)
	var fs []*Fake
	for i := 0; i < n; i++ {
		fs = append(fs, w.NewFake(int64(revs[i]+1))) // distinct revision counts
	}
	for _, f := range fs {
		w.Register(f, "closed")
	}
	st := w.C.VerifState()
	if !st.StartSignalled {
		w.Fail("C09", "no-start-signal-with-majority", fmt.Sprintf("all %d replicas registered, nobody signalled", n))
		return
	}
	var leader *Fake
	for _, f := range fs {
		if f.IP == st.MaxRevReplica {
			leader = f
		}
	}
	if leader == nil {
		return
	}
	leader.mu.Lock()
	leader.Alive = false
	leader.mu.Unlock()
	w.rec(Step{K: "leader-dies", Addr: leader.IP})
	var best *Fake
	for _, f := range fs {
		if f != leader && (best == nil || f.Rev > best.Rev) {
			best = f
		}
	}
	w.Fac.mu.Lock()
	nsig := len(w.Fac.Signals)
	w.Fac.mu.Unlock()
	var wg sync.WaitGroup
	gate := make(chan struct{})
	for _, f := range fs {
		if f == leader {
			continue
		}
		w.rec(Step{K: "register", Addr: f.IP, Note: fmt.Sprintf("rev=%d concurrent re-registration", f.Rev)})
		wg.Add(1)
		go func(f *Fake) {
			defer wg.Done()
			<-gate
			w.C.RegisterReplica(types.RegReplica{Address: f.IP, UUID: f.UUID, RevCount: f.Rev, RepType: "Backend", RepState: "closed", UpTime: time.Second})
		}(f)
	}
	close(gate)
	done := make(chan struct{})
	go func() { wg.Wait(); close(done) }()
	select {
	case <-done:
	case <-time.After(60 * time.Second):
		w.notes = append(w.notes, "election race: registrations still pending after 60 s")
		w.Dead = true
		return
	}
	w.Res.Count("registrations", int64(n-1))
	w.Res.Count("concurrent_reregistration_rounds", 1)
	w.NonTrivial = true
	w.Fac.mu.Lock()
	sigs := append([]Signal(nil), w.Fac.Signals[nsig:]...)
	w.Fac.mu.Unlock()
	starts := 0
	for _, s := range sigs {
		if s.Action != "start" {
			continue
		}
		starts++
		w.Res.Count("start_signals", 1)
		if s.Target != best.IP {
			t := w.Fakes["tcp://"+s.Target+":9502"]
			rev := int64(-1)
			if t != nil {
				rev = t.Rev
			}
			w.Fail("C09", "elected-replica-not-most-up-to-date:concurrent-registrations", fmt.Sprintf("after the elected replica %s died and %d registered replicas re-registered at the same time, start was signalled to %s (revision %d) although %s (revision %d) is registered and alive; signals: %v", leader.IP, n-1, s.Target, rev, best.IP, best.Rev, sigs))
			return
		}
	}
	if starts == 0 {
		w.Fail("C09", "no-start-signal-with-majority", fmt.Sprintf("%d live replicas re-registered after the leader died, nobody was signalled", n-1))
		return
	}
	w.Res.Count("elections_checked", 1)
	post := w.C.VerifState()
	// only the newly elected replica can start the volume
	for _, f := range fs {
		if f == best || f == leader {
			continue
		}
		if err := w.C.Start(f.Addr); err == nil || len(w.C.VerifState().Replicas) > 0 {
			w.Fail("C09", "start-accepted-from-non-elected", fmt.Sprintf("Start(%s) accepted although %s was signalled", f.Addr, post.MaxRevReplica))
			return
		}
		break
	}
	if err := w.Start(best); err != nil {
		w.Fail("C09", "elected-replica-cannot-start", err.Error())
		return
	}
	w.Res.Count("volume_starts", 1)
	w.CheckSettled("start")
}

// RunCloneStart is the controller's side of C19: the only replica of a new
// volume is a clone whose status moves through a scripted sequence ("" while
// the replica has not begun, "inProgress" during the copy, then "completed" or
// "error") while the controller polls it during Start. The replica must not be
// told RW, nor listed RW, before it reported "completed"; after "error" it
// must not be attached at all.
func RunCloneStart(w *World, idx int) {
	r := w.R
	f := w.NewFake(int64(r.Range(1, 9)))
	empties := []int{0, 1, 2, 4, 5, 6}[idx%6]
	copying := []int{0, 1, 2, 3}[(idx/6)%4]
	final := []string{"completed", "completed", "error", "completed"}[(idx/24+idx)%4]
	var script []string
	for i := 0; i < empties; i++ {
		script = append(script, "")
	}
	for i := 0; i < copying; i++ {
		script = append(script, "inProgress")
	}
	script = append(script, final)
	f.mu.Lock()
	f.CloneStatus = ""
	f.CloneScript = script
	f.mu.Unlock()
	w.Cfg = map[string]interface{}{"rf": w.RF, "scenario": "clone-start", "polls_empty": empties, "polls_in_progress": copying, "final": final}
	w.NonTrivial = true
	w.Register(f, "closed")
	st := w.C.VerifState()
	if !st.StartSignalled || st.MaxRevReplica != f.IP {
		w.notes = append(w.notes, "clone-start: the only replica was not signalled")
		return
	}
	// sampler: what the controller reports while Start is polling (GET /v1/replicas takes the lock Start holds, so
	// the replica's own record of what it was told is the witness)
	err := w.Start(f)
	w.Res.Count("clone_starts", 1)
	w.Res.Count("clone_status_polls", int64(len(script)))
	f.mu.Lock()
	calls := append([]string(nil), f.SetCalls...)
	mode := f.Mode
	f.mu.Unlock()
	completedSeen := false
	for _, c := range calls {
		if c == "clonestatus=completed" {
			completedSeen = true
		}
		if c == "mode=RW" && !completedSeen {
			w.Fail("C19", "clone-told-RW-before-completed", fmt.Sprintf("the controller set the clone replica RW before it reported completed; what the replica saw, in order: %v (script %q)", calls, script))
			return
		}
	}
	post := w.C.VerifState()
	listedRW := false
	for _, rp := range post.Replicas {
		if rp.Address == f.Addr && rp.Mode == types.RW {
			listedRW = true
		}
	}
	switch final {
	case "error":
		if err == nil || listedRW || mode == "RW" || len(post.Replicas) > 0 {
			w.Fail("C19", "failed-clone-served", fmt.Sprintf("the clone reported error, yet Start returned %v and the controller holds %s (replica told %q)", err, digest(post, false), mode))
			return
		}
	default:
		if err != nil || !listedRW {
			w.Fail("C19", "completed-clone-not-started", fmt.Sprintf("the clone reported completed after %d polls, yet Start returned %v and the controller holds %s", len(script), err, digest(post, false)))
			return
		}
		w.CheckSettled("clone-start")
	}
}
