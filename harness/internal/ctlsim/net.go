package ctlsim

import (
	"encoding/json"
	"fmt"
	"io"
	"net"
	"net/http"
	"strconv"
	"sync/atomic"
	"time"

	"github.com/openebs/jiva/backend/dynamic"
	"github.com/openebs/jiva/backend/remote"
	"github.com/openebs/jiva/rpc"
	"github.com/openebs/jiva/types"
)

// Net mode moves the scripted boundary one layer down: the controller gets the
// real backend factory (backend/remote: REST calls to the replica's control
// port, the data connection with the real rpc.Client, the ping monitor), and a
// scripted replica is a REST endpoint on ip:9502 plus the real rpc.Server on
// ip:9503 in front of the fake's store. The same scenarios and oracles run;
// faults become what a replica process can really do: error replies, replies
// that never come, connections that drop before or after a reply.

// NetFactory wraps remote.Factory and keeps the journal the scenarios read.
type NetFactory struct {
	*Factory
	real types.BackendFactory
}

func newNetFactory(w *World) *NetFactory {
	return &NetFactory{Factory: &Factory{W: w, SignalErr: map[string]bool{}}, real: dynamic.New(map[string]types.BackendFactory{"tcp": remote.New()})}
}

func (fa *NetFactory) Create(address string) (types.Backend, error) {
	fa.mu.Lock()
	fa.Creates = append(fa.Creates, address)
	d := fa.CreateDelay
	fa.mu.Unlock()
	if d > 0 {
		time.Sleep(d)
	}
	return fa.real.Create(address)
}

func (fa *NetFactory) SignalToAdd(address string, action string) error {
	fa.mu.Lock()
	s := Signal{Seq: atomic.AddInt64(&fa.W.seq, 1), Target: address, Action: action}
	scripted := fa.SignalErr[address]
	delete(fa.SignalErr, address)
	fa.mu.Unlock()
	var err error
	if scripted {
		err = fmt.Errorf("scripted signal failure")
	} else {
		err = fa.real.SignalToAdd(address, action)
	}
	if err != nil {
		s.Err = err.Error()
	}
	fa.mu.Lock()
	fa.Signals = append(fa.Signals, s)
	fa.mu.Unlock()
	return err
}

func (fa *NetFactory) VerifyReplicaAlive(address string) bool {
	fa.mu.Lock()
	fa.Alive = append(fa.Alive, address)
	fa.mu.Unlock()
	return fa.real.VerifyReplicaAlive(address)
}

// startData listens on the fake's data port; every accepted connection is
// served by the real rpc.Server.
func (f *Fake) startData() error {
	l, err := net.Listen("tcp", f.IP+":9503")
	if err != nil {
		return err
	}
	f.dlis = l
	go func() {
		for {
			tcp, err := l.Accept()
			if err != nil {
				return
			}
			f.mu.Lock()
			alive := f.Alive
			if c := f.conn; c != nil && c.wantTCP {
				// the open request overtook the accept of the connection dialled before it
				c.tcp, c.wantTCP = tcp, false
			} else {
				f.pendingTCP = tcp
			}
			f.mu.Unlock()
			if !alive {
				tcp.Close()
				continue
			}
			if c := f.connOf(tcp); c != nil && atomic.LoadInt32(&c.dropped) != 0 {
				tcp.Close() // dropped before it was bound
				continue
			}
			srv := rpc.NewServer(tcp, &dataProc{f: f, tcp: tcp})
			go func() {
				srv.Handle()
				tcp.Close()
			}()
		}
	}()
	return nil
}

func (f *Fake) stopData() {
	if f.dlis != nil {
		f.dlis.Close()
	}
	f.mu.Lock()
	c := f.conn
	p := f.pendingTCP
	f.mu.Unlock()
	if c != nil && c.tcp != nil {
		c.tcp.Close()
	}
	if p != nil {
		p.Close()
	}
}

// dataProc is what the rpc server of one data connection calls.
type dataProc struct {
	f   *Fake
	tcp net.Conn
}

// conn returns the attachment this data connection belongs to; requests on a
// connection of an earlier attachment are answered like a closed one.
func (d *dataProc) conn() *Conn {
	d.f.mu.Lock()
	defer d.f.mu.Unlock()
	if c := d.f.conn; c != nil && c.tcp == d.tcp {
		return c
	}
	return &Conn{F: d.f, closed: 1, net: true, tcp: d.tcp}
}

func (d *dataProc) WriteAt(buf []byte, off int64) (int, error) { return d.conn().WriteAt(buf, off) }
func (d *dataProc) ReadAt(buf []byte, off int64) (int, error)  { return d.conn().ReadAt(buf, off) }
func (d *dataProc) Sync() (int, error)                         { return d.conn().Sync() }
func (d *dataProc) Unmap(off, l int64) (int, error)            { return d.conn().Unmap(off, l) }
func (d *dataProc) PingResponse() error {
	// a replica that hangs: the ping stays unanswered until the connection is gone
	for i := 0; i < 3000 && atomic.LoadInt32(&d.f.PingHang) != 0; i++ {
		if c := d.f.connOf(d.tcp); c == nil || atomic.LoadInt32(&c.dropped) != 0 {
			break
		}
		time.Sleep(10 * time.Millisecond)
	}
	d.f.mu.Lock()
	alive := d.f.Alive
	d.f.mu.Unlock()
	if !alive {
		return fmt.Errorf("replica is gone")
	}
	return nil
}

// drop cuts the data connection of this attachment (what a dying or
// partitioned replica looks like to the controller).
func (c *Conn) drop() {
	if !atomic.CompareAndSwapInt32(&c.dropped, 0, 1) {
		return
	}
	c.F.mu.Lock()
	tcp := c.tcp
	c.F.mu.Unlock()
	if tcp != nil {
		tcp.Close()
	}
}

// netIO is Conn.io for an attachment that lives behind the real transport.
func (c *Conn) netIO(kind string, o Outcome) error {
	switch o {
	case OK:
		return nil
	case AppliedThenErr:
		// applied, but the reply never arrives: the connection goes away first
		c.drop()
		return fmt.Errorf("scripted %s error (reply lost)", kind)
	case DelayThenErr:
		// longer than the configured rpc deadline (1 s): the client gives up on its own
		time.Sleep(1300 * time.Millisecond)
		return fmt.Errorf("scripted %s error (late)", kind)
	case ErrMonBefore:
		c.drop()
		return fmt.Errorf("scripted %s error", kind)
	case ErrMonAfter:
		go func() {
			time.Sleep(500 * time.Microsecond)
			c.drop()
		}()
		return fmt.Errorf("scripted %s error", kind)
	}
	return fmt.Errorf("scripted %s error", kind)
}

// netAction serves the POST actions the real backend sends to a replica's
// control port. Called without f.mu held.
func (f *Fake) netAction(w http.ResponseWriter, r *http.Request, action string) {
	body, _ := io.ReadAll(io.LimitReader(r.Body, 1<<16))
	var in map[string]interface{}
	json.Unmarshal(body, &in)
	// scripted: the connection of this request is cut after the request arrived and before any answer is sent
	f.mu.Lock()
	cut := f.CutNextREST != "" && f.CutNextREST == action
	if cut {
		f.CutNextREST = ""
		f.call("REST:" + action + "(connection cut)")
	}
	f.mu.Unlock()
	if cut {
		if hj, ok := w.(http.Hijacker); ok {
			if c, _, err := hj.Hijack(); err == nil {
				c.Close()
				return
			}
		}
		w.WriteHeader(500)
		return
	}
	str := func(k string) string {
		if v, ok := in[k].(string); ok {
			return v
		}
		return ""
	}
	fail := func(err error) {
		w.WriteHeader(500)
		json.NewEncoder(w).Encode(map[string]interface{}{"type": "error", "status": 500, "message": err.Error()})
	}
	ok := func() {
		f.mu.Lock()
		info := f.infoLocked()
		f.mu.Unlock()
		json.NewEncoder(w).Encode(info)
	}
	if action == "open" {
		f.mu.Lock()
		f.call("Create")
		if f.State != "closed" {
			st := f.State
			f.mu.Unlock()
			fail(fmt.Errorf("Replica is already open (state %s)", st))
			return
		}
		f.State = "open"
		f.Mode = "INIT"
		f.conns++
		c := &Conn{F: f, ID: f.conns, net: true, tcp: f.pendingTCP, monitorChan: make(types.MonitorChannel, 5), closeChan: make(chan struct{}, 5), inject: make(chan error, 1)}
		f.pendingTCP = nil
		c.wantTCP = c.tcp == nil
		f.conn = c
		for i := range f.Dirty {
			f.Dirty[i] = false
		}
		f.mu.Unlock()
		ok()
		return
	}
	f.mu.Lock()
	c := f.conn
	st := f.State
	f.mu.Unlock()
	if action == "start" {
		// the controller's signal to a registered replica; the harness drives what the replica does next
		f.mu.Lock()
		f.call("REST:start")
		f.mu.Unlock()
		ok()
		return
	}
	if c == nil || st != "open" {
		w.WriteHeader(404) // the action is not offered in this state
		return
	}
	var err error
	switch action {
	case "snapshot":
		uc, _ := in["usercreated"].(bool)
		err = c.Snapshot(str("name"), uc, str("created"))
	case "resize":
		err = c.Resize(str("name"), str("size"))
	case "setrebuilding":
		b, _ := in["rebuilding"].(bool)
		err = c.SetRebuilding(b)
	case "setreplicamode":
		err = c.SetReplicaMode(types.Mode(str("mode")))
	case "setrevisioncounter":
		// as the replica's handler reads it: an absent or unparsable counter is taken as 0
		n, _ := strconv.ParseInt(str("counter"), 10, 64)
		err = c.SetRevisionCounter(n)
	case "setcheckpoint":
		err = c.SetCheckpoint(str("snapshotName"))
	default:
		w.WriteHeader(404)
		return
	}
	if err != nil {
		fail(err)
		return
	}
	ok()
}

var netActions = map[string]bool{"open": true, "start": true, "snapshot": true, "resize": true, "setrebuilding": true, "setreplicamode": true, "setrevisioncounter": true, "setcheckpoint": true}

func (d *dataProc) Close() error { return nil }

func (f *Fake) connOf(tcp net.Conn) *Conn {
	f.mu.Lock()
	defer f.mu.Unlock()
	if f.conn != nil && f.conn.tcp == tcp {
		return f.conn
	}
	return nil
}
